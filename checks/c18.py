"""C18 - staleness depends only on instants, not on time zone or naive/aware form."""
import datetime as dt
import itertools
import json
import os
import shutil
import tempfile
import time
import zoneinfo

import uberjob
from hypothesis import given, strategies as st
from uberjob._value_store import ValueStore
from uberjob.stores import JsonFileStore, LiteralSource, ModifiedTimeSource, PathSource

from vlib import refmodel, runner
from vlib.util import uncanon

ID = "C18"
LEVEL = "exploration"
SHARDS = {"quick": 8, "thorough": 16}
LEVEL_TEXT = (
    "Generated instants (epoch seconds, biased to lie within +-14 h of each other and around DST transitions of the chosen "
    "zone) for fresh_time and for the stores of a small world (source -> stored -> stored, plus an independent stored "
    "node); for each instant tuple the process time zone is ENUMERATED over 8 zones (os.environ['TZ'] + time.tzset()) and "
    "the representation of every datetime over a generated set of assignments from {naive local via fromtimestamp (carries "
    "fold), aware UTC, aware fixed offset, aware zoneinfo zone, bundled file store (real file, mtime set with os.utime, the library's own get_modified_time)} plus the five uniform assignments. Metamorphic/differential "
    "oracle: the set of stores rewritten must equal the set computed from the integer instants in every cell. Bounded; "
    "presence not absence."
)
LEVEL_NOTE = "Trusts the system tz database (zoneinfo / tzset) and datetime.fromtimestamp as the definition of 'naive local'."
TECHNIQUE = "metamorphic property-based testing: generated instants x enumerated TZ/representation grid vs. decision computed from instants"
RULE = (
    "(also: the source may be a bundled PathSource, LiteralSource or ModifiedTimeSource) Hypothesis draws a base instant (a DST transition of one of the zones or arbitrary) and offsets within +-14 h "
    "(second granularity near transitions) for source, two chained stored nodes, an independent stored node and "
    "fresh_time (or none), plus 6 representation assignments (naive local, aware UTC, fixed offset, zoneinfo, or a bundled file store whose modified time is the mtime of a real file set with os.utime); every (TZ, assignment) cell is run. Non-trivial = the cell "
    "compares datetimes of different representations, or has a non-zero UTC offset, with two instants closer than the "
    "zone's offset (decision sensitive), or an instant inside a repeated (fall-back) hour. Distinct = SHA-1 of (instants, "
    "TZ, assignment)."
)
ASSUMPTIONS = ["naive datetimes denote local time of the process (as bundled file stores and the docs produce them)"]

ZONES = ["UTC", "America/New_York", "Europe/London", "Asia/Kolkata", "Australia/Lord_Howe",
         "Pacific/Kiritimati", "America/St_Johns", "Pacific/Pago_Pago"]
# (zone, UTC instant of a transition)
TRANSITIONS = [
    ("America/New_York", 1636264800),  # 2021-11-07 fall back
    ("America/New_York", 1615705200),  # 2021-03-14 spring forward
    ("Europe/London", 1635642000),     # 2021-10-31 fall back
    ("Europe/London", 1616893200),     # 2021-03-28 spring forward
    ("Australia/Lord_Howe", 1617462000),  # 2021-04-03 15:00 UTC fall back (30 min)
    ("Australia/Lord_Howe", 1633188600),  # 2021-10-02 15:30 UTC spring forward
    ("America/St_Johns", 1636259400),  # 2021-11-07 04:30 UTC fall back
]
# "file": a bundled file store; its modified time is the file's mtime.  "path": the source is a bundled PathSource
# (the other stores of such a row are bundled file stores)
REPRS = ["naive", "utc", "fixed", "zone", "file", "path"]
FILE_KINDS = ("file", "path")
NAMES = ["src", "a", "b", "c", "fresh"]


class TimedStore(ValueStore):
    def __init__(self, name, box):
        self.name = name
        self.box = box
        self.value = name

    def read(self):
        return self.value

    def write(self, value):
        self.box["written"].append(self.name)
        self.value = value
        self.box["now"] += 1
        self.box["instants"][self.name] = self.box["now"]

    def get_modified_time(self):
        t = self.box["instants"].get(self.name)
        if t is None:
            return None
        return represent(t, self.box["reprs"][self.name])


class StampedFileStore(JsonFileStore):
    """A real bundled file store (get_modified_time is the library's own, from the file's mtime); the harness
    stamps the instant of every write with os.utime so that instants are exact and strictly increasing."""

    __slots__ = ("name", "box")

    def __init__(self, path, name, box):
        super().__init__(path)
        self.name = name
        self.box = box
        with open(path, "w") as f:
            json.dump(name, f)
        t = box["instants"][name]
        os.utime(path, (t, t))

    def write(self, value):
        super().write(value)
        self.box["written"].append(self.name)
        self.box["now"] += 1
        os.utime(self.path, (self.box["now"], self.box["now"]))


def make_store(name, box):
    if box["reprs"][name][0] == "path" and name == "src":
        path = os.path.join(box["dir"], "src.dat")
        with open(path, "w") as f:
            f.write("src")
        os.utime(path, (box["instants"]["src"], box["instants"]["src"]))
        return PathSource(path)
    if name == "src" and box.get("src_store") in ("literal", "mtsource") and box["reprs"][name][0] not in FILE_KINDS:
        # the bundled in-memory sources: they report whatever datetime the user constructed them with
        t = represent(box["instants"]["src"], box["reprs"]["src"])
        return LiteralSource("src", t) if box["src_store"] == "literal" else ModifiedTimeSource(t)
    if box["reprs"][name][0] in FILE_KINDS:
        return StampedFileStore(os.path.join(box["dir"], name + ".json"), name, box)
    return TimedStore(name, box)


def represent(t, r):
    kind = r[0]
    if kind in ("naive",) + FILE_KINDS:
        return dt.datetime.fromtimestamp(t)
    if kind == "utc":
        return dt.datetime.fromtimestamp(t, tz=dt.timezone.utc)
    if kind == "fixed":
        return dt.datetime.fromtimestamp(t, tz=dt.timezone(dt.timedelta(minutes=r[1])))
    return dt.datetime.fromtimestamp(t, tz=zoneinfo.ZoneInfo(r[1]))


@st.composite
def cases(draw):
    if draw(st.sampled_from([True, True, False])):
        zone, base = draw(st.sampled_from(TRANSITIONS))
    else:
        zone, base = draw(st.sampled_from(ZONES)), draw(st.integers(946684800, 1893456000))
    near = st.one_of(st.integers(-3700, 3700), st.integers(-14 * 3600, 14 * 3600),
                     st.sampled_from([-3600, -1800, -1, 0, 1, 1800, 3599, 3600]))
    inst = {n: base + draw(near) for n in NAMES}
    # pairwise distinct instants for the stores (the staleness statement assumes distinct times)
    seen = set()
    for n in ("src", "a", "b", "c"):
        while inst[n] in seen:
            inst[n] += 1
        seen.add(inst[n])
    has_fresh = draw(st.sampled_from([True, True, False]))
    rep = st.one_of(st.just(["naive"]), st.just(["utc"]), st.just(["file"]), st.just(["file"]), st.just(["path"]),
                    st.tuples(st.just("fixed"), st.sampled_from([-720, -300, -210, 0, 60, 330, 345, 630, 840])).map(list),
                    st.tuples(st.just("zone"), st.sampled_from(ZONES)).map(list))
    assigns = [{n: draw(rep) for n in NAMES} for _ in range(6)]
    return {"zone_hint": zone, "inst": inst, "has_fresh": has_fresh, "assigns": assigns,
            "src_store": draw(st.sampled_from(["timed", "literal", "mtsource"]))}


def set_tz(name):
    os.environ["TZ"] = name
    time.tzset()


def expected(inst, has_fresh):
    spec = {"nodes": [{"k": "src", "deps": []},
                      {"k": "call", "args": [{"n": 0}], "kwargs": [], "deps": [], "stored": True},
                      {"k": "call", "args": [{"n": 1}], "kwargs": [], "deps": [], "stored": True},
                      {"k": "call", "args": [], "kwargs": [], "deps": [], "stored": True}]}
    times = {0: inst["src"], 1: inst["a"], 2: inst["b"], 3: inst["c"]}
    ood = refmodel.out_of_date(spec, times, inst["fresh"] if has_fresh else None)
    return sorted({1: "a", 2: "b", 3: "c"}[i] for i in ood if i != 0)


def run_cell(inst, has_fresh, reprs, directory=None, src_store="timed"):
    box = {"written": [], "instants": {k: v for k, v in inst.items() if k != "fresh"}, "reprs": reprs,
           "now": max(inst.values()) + 10, "dir": directory, "src_store": src_store}
    plan = uberjob.Plan()
    reg = uberjob.Registry()
    src = reg.source(plan, make_store("src", box))
    a = plan.call(lambda x: ("a", str(x)), src)  # (a ModifiedTimeSource yields a datetime; file stores hold JSON)
    reg.add(a, make_store("a", box))
    b = plan.call(lambda x: ("b", x), a)
    reg.add(b, make_store("b", box))
    c = plan.call(lambda: "c")
    reg.add(c, make_store("c", box))
    kw = {}
    if has_fresh:
        kw["fresh_time"] = represent(inst["fresh"], reprs["fresh"])
    uberjob.run(plan, registry=reg, progress=None, max_workers=1, **kw)
    return sorted(box["written"])


def utc_offset_seconds(zone, t):
    return int(dt.datetime.fromtimestamp(t, tz=zoneinfo.ZoneInfo(zone)).utcoffset().total_seconds())


def in_repeated_hour(zone, t):
    z = zoneinfo.ZoneInfo(zone)
    d = dt.datetime.fromtimestamp(t, tz=z)
    naive = d.replace(tzinfo=None)
    return naive.replace(tzinfo=z, fold=0).utcoffset() != naive.replace(tzinfo=z, fold=1).utcoffset()


def check_case(ctx, case, record=True, only=None):
    inst, has_fresh = case["inst"], case["has_fresh"]
    exp = expected(inst, has_fresh)
    uniform = [{n: [r] if r in ("naive", "utc", "file", "path") else (["fixed", 330] if r == "fixed" else ["zone", case["zone_hint"]])
                for n in NAMES} for r in REPRS]
    assigns = uniform + [dict(a) for a in case["assigns"]]
    zones = ZONES if case["zone_hint"] in ZONES else ZONES + [case["zone_hint"]]
    cells = [(z, i) for z in zones for i in range(len(assigns))]
    if only is not None:
        cells = [tuple(only)]
    directory = tempfile.mkdtemp(prefix="c18-")
    try:
        for z, ai in cells:
            reprs = assigns[ai]
            set_tz(z)
            used = [n for n in NAMES if n != "fresh" or has_fresh]
            kinds = {tuple(reprs[n]) for n in used}
            off = abs(utc_offset_seconds(z, inst["a"]))
            vals = sorted(inst[n] for n in used)
            close = any(0 < y - x <= max(off, 1) for x, y in zip(vals, vals[1:]))
            rep_hour = any(in_repeated_hour(z, inst[n]) for n in used)
            naive_used = any(reprs[n][0] in ("naive",) + FILE_KINDS for n in used)
            nt = ((len(kinds) > 1 or off != 0) and close) or (rep_hour and naive_used)
            key_case = {"case": case, "tz": z, "assign": ai}
            if record:
                ctx.case(key_case, nt, [f"tz:{z}", "mixed_repr" if len(kinds) > 1 else "uniform:" + next(iter(kinds))[0]]
                         + (["file_store"] if any(reprs[n][0] in FILE_KINDS for n in used) else [])
                         + (["path_source"] if reprs["src"][0] == "path" else [])
                         + (["src_is_bundled_" + case["src_store"]] if case.get("src_store", "timed") != "timed"
                            and reprs["src"][0] not in FILE_KINDS else [])
                         + (["repeated_hour"] if rep_hour and naive_used else []) + (["fresh"] if has_fresh else []))
            try:
                got = run_cell(inst, has_fresh, reprs, directory, case.get("src_store", "timed"))
            except Exception as e:
                ctx.violation(key_case, f"[TZ={z} reprs={reprs}] run raised {e!r} cause {getattr(e, '__cause__', None)!r}",
                              key=classify(z, reprs, used, rep_hour))
            if got != exp:
                ctx.violation(key_case, f"[TZ={z} reprs={ {n: reprs[n] for n in used} }] stores rewritten {got}, but by the instants "
                                        f"{ {n: inst[n] for n in used} } exactly {exp} are out of date",
                              key=classify(z, reprs, used, rep_hour))
    finally:
        set_tz("UTC")
        shutil.rmtree(directory, ignore_errors=True)


def classify(z, reprs, used, rep_hour):
    kinds = {reprs[n][0] for n in used}
    if "naive" in kinds and len(kinds) > 1 and z != "UTC":
        return "naive-local-vs-aware"
    if kinds == {"naive"} and rep_hour:
        return "naive-local-repeated-hour"
    return None


def run_shard(ctx):
    @given(cases())
    def test(case):
        runner.guarded(ctx, check_case, case)

    runner.drive(ctx, test, ctx.n(960, 16000))


def replay(ctx, case):
    case = uncanon(case)
    only = None
    if "tz" in case:
        only = (case["tz"], case["assign"])
        case = case["case"]
    try:
        runner.guarded(ctx, check_case, case, record=False, only=only)
    except runner.Violation as v:
        return v.msg
    return None
