"""C12 - stores return what was written and report modified times faithfully.

Generated: (store kind, direct / mounted, str / pathlib path, encoding, sequence of 1..4
values from the store's documented domain).  Oracle: round trip (type-exact deep
equality) after every write, get_modified_time None <=> nothing written, never
decreasing across writes.
"""
import codecs
import datetime as dt
import decimal
import fractions
import locale
import os
import pathlib
import shutil
import tempfile

from hypothesis import given, strategies as st

from vlib import runner
from vlib.util import deep_eq, depth_of, LINE_TERMINATORS

ID = "C12"
LEVEL = "exploration"
SHARDS = {"quick": 4, "thorough": 16}
LEVEL_TEXT = (
    "Generated-input search: thousands of (store class, path type, encoding, value sequence) cases "
    "against a round-trip oracle with type-exact deep equality and a modified-time monotonicity "
    "invariant. Bounded search over the documented value domains; shows presence of defects, not absence."
)
LEVEL_NOTE = (
    "Trusts the local file system and os.path.getmtime; pickle domain limited to built-in value "
    "types; text values restricted to code points the chosen encoding can represent."
)
TECHNIQUE = "property-based testing (Hypothesis): round-trip + monotonic-mtime oracle over generated values and write sequences"
RULE = (
    "(also: files stamped at the Unix epoch; 2-3 subclasses of the public MountedStore written and read from threads at the same time with a rendezvous in the copy hooks) Hypothesis draws (store kind in json/pickle/text/binary/touch, direct or through "
    "TestMountedFileStore, str or pathlib path, encoding, 1-4 successive values of the store's "
    "domain); after every write: read()==value with exact types at every level, modified time "
    "not None and not decreasing; before the first write: modified time None. Text values carry interesting code points (BOM, line terminators, Ctrl-Z) at their first/last position. The path may be spelled absolute or relative to the working directory (bare name, ./name, sub/name) and may hold foreign content before the first write. Time-zone family: successive writes at instants around DST transitions (file mtime set with os.utime) under 7 process time zones; the reported modified times never decrease as instants. Non-trivial = some "
    "value contains a control character / line terminator / non-ASCII code point, or nests >= 3 "
    "deep, or serialises to >= 64 KiB. Distinct = SHA-1 of the canonical case JSON."
)
ASSUMPTIONS = [
    "local POSIX file system under $TMPDIR; file mtimes as reported by os.path.getmtime",
    "pickle domain sampled from built-in value types (no user classes)",
    "JSON domain = None/bool/int(<4300 digits)/finite float/str/list/dict with str keys",
]

TEXT_ENCODINGS = [None, "utf-8", "utf-16", "latin-1", "ascii", "utf-8-sig", "utf-32", "cp1252"]
JSON_ENCODINGS = [None, "utf-8", "utf-16", "latin-1", "ascii"]


def _encodable_text(encoding, **kw):
    enc = encoding or locale.getencoding()
    codec = codecs.lookup(enc).name
    if codec in ("utf-8", "utf-16", "utf-32", "utf-8-sig"):
        alpha = st.characters(exclude_categories=["Cs"])
    else:
        alpha = st.characters(codec=codec)
    interesting = st.sampled_from(["\r", "\n", "\r\n", "\x00", "\x1a", "\x85", " ",
                                   " ", "\x0b", "\x0c", "\x1c", "﻿", "\xe9", "\xff", "\t"])

    def ok(s):
        try:
            s.encode(enc)
            return True
        except UnicodeError:
            return False

    piece = st.one_of(st.text(alpha, max_size=12), interesting.filter(ok))
    body = st.lists(piece, max_size=8).map("".join)
    # the first and last code points matter to codecs and newline handling (byte order marks, trailing
    # line terminators, Ctrl-Z): put the interesting ones there on purpose
    edge = st.one_of(st.just(""), st.just(""), interesting.filter(ok))
    return st.tuples(edge, body, edge).map("".join)


def _json_values():
    text = st.one_of(
        st.text(max_size=10),
        st.lists(st.sampled_from(["\r", "\n", "\r\n", " ", "\x00", "\ud800", "\xe9", "a", "\\", '"']),
                 max_size=6).map("".join),
    )
    leaves = st.one_of(
        st.none(), st.booleans(), st.integers(-(10 ** 30), 10 ** 30),
        st.integers(10 ** 1000, 10 ** 1001), st.floats(allow_nan=False, allow_infinity=False), text,
    )
    return st.recursive(
        leaves,
        lambda ch: st.one_of(st.lists(ch, max_size=4), st.dictionaries(text, ch, max_size=4)),
        max_leaves=12,
    )


def _pickle_values():
    leaves = st.one_of(
        st.none(), st.booleans(), st.integers(), st.floats(allow_nan=False), st.text(max_size=8),
        st.binary(max_size=8), st.complex_numbers(allow_nan=False),
        st.datetimes(), st.dates(), st.timedeltas(),
        st.decimals(allow_nan=False), st.fractions(),
        st.builds(bytearray, st.binary(max_size=6)), st.builds(range, st.integers(-5, 5), st.integers(-5, 5)),
    )
    hashable = st.one_of(st.none(), st.booleans(), st.integers(), st.text(max_size=5),
                         st.binary(max_size=5), st.tuples(st.integers(), st.text(max_size=3)))
    return st.recursive(
        leaves,
        lambda ch: st.one_of(
            st.lists(ch, max_size=4), st.lists(ch, max_size=3).map(tuple),
            st.dictionaries(hashable, ch, max_size=3), st.frozensets(hashable, max_size=3),
            st.sets(hashable, max_size=3),
        ),
        max_leaves=10,
    )


@st.composite
def cases(draw):
    kind = draw(st.sampled_from(["json", "pickle", "text", "binary", "touch", "text", "json"]))
    mounted = draw(st.booleans())
    pathlib_path = draw(st.booleans())
    encoding = None
    if kind == "text":
        encoding = draw(st.sampled_from(TEXT_ENCODINGS))
        vals = TEXT_STRATS[encoding]
        big = st.integers(1, 9).map(lambda k: ("\xe9ab\n" * 9000)[: 9000 * k])
        if encoding not in ("ascii",):
            vals = st.one_of(vals, vals, vals, vals, big.filter(lambda s: _can(s, encoding)))
    elif kind == "json":
        encoding = draw(st.sampled_from(JSON_ENCODINGS))
        vals = JSON_VALUES
    elif kind == "pickle":
        vals = PICKLE_VALUES
    elif kind == "binary":
        vals = st.one_of(st.binary(max_size=64), st.binary(max_size=64),
                         st.integers(0, 255).map(lambda b: bytes([b, 13, 10, 0, 26]) * 14000))
    else:
        vals = st.none()
    values = draw(st.lists(vals, min_size=1, max_size=4))
    reads = draw(st.lists(st.integers(0, 2), min_size=len(values), max_size=len(values)))
    # history of the path: it may already hold something another program / another store kind left there
    foreign = None
    if not mounted and draw(st.integers(0, 4)) == 0:
        foreign = draw(st.sampled_from(["", "old report\r\n", "{\"a\": 1}", "\x80\x04N.", "\ufeffx"]))
    # how the path is spelled: absolute, or relative to the working directory (bare file name, ./name, sub/name)
    style = "abs" if mounted else draw(st.sampled_from(["abs", "abs", "abs", "bare", "dot", "sub"]))
    return {"kind": kind, "mounted": mounted, "pathlib": pathlib_path, "encoding": encoding,
            "values": values, "reads": reads, "foreign": foreign, "pathstyle": style}


JSON_VALUES = _json_values()
PICKLE_VALUES = _pickle_values()
TEXT_STRATS = {e: _encodable_text(e) for e in TEXT_ENCODINGS}


def _can(s, encoding):
    try:
        s.encode(encoding or locale.getencoding())
        return True
    except UnicodeError:
        return False


def _creator(case):
    from uberjob import stores

    kind, enc = case["kind"], case["encoding"]

    def create(path):
        if case["pathlib"]:
            path = pathlib.Path(path)
        if kind == "json":
            return stores.JsonFileStore(path, encoding=enc)
        if kind == "text":
            return stores.TextFileStore(path, encoding=enc)
        if kind == "pickle":
            return stores.PickleFileStore(path)
        if kind == "binary":
            return stores.BinaryFileStore(path)
        return stores.TouchFileStore(path)

    return create


@st.composite
def overlap_cases(draw):
    subs = []
    for _ in range(draw(st.sampled_from([2, 2, 3]))):
        c = draw(cases())
        c.update(mounted=True, foreign=None, pathstyle="abs")
        c["values"] = c["values"][:3]
        subs.append(c)
    return {"fam": "overlap", "subs": subs}


def check_overlap_case(ctx, case, record=True):
    """Several MountedStores (each a subclass of the public MountedStore ABC copying to its own 'remote' file) are written
    and read at the same time from different threads, as a run's workers do; the copy hooks rendezvous so that the
    operations really overlap.  Each store must still return exactly what was written to it."""
    import threading

    from uberjob.stores import MountedStore
    from uberjob.stores._file_store import get_modified_time

    subs = case["subs"]
    n = len(subs)
    if record:
        ctx.case(case, True, ["fam:overlap", f"stores:{n}"] + sorted({f"kind:{c['kind']}" for c in subs}))
    directory = tempfile.mkdtemp(prefix="c12-")
    gate = {"barrier": None}

    def rendezvous():
        b = gate["barrier"]
        if b is not None:
            try:
                b.wait(0.3)
            except threading.BrokenBarrierError:
                pass  # the others are not (or no longer) inside an operation: no overlap forced, nothing asserted

    class RemoteMounted(MountedStore):
        def __init__(self, create, remote):
            super().__init__(create)
            self.remote = remote

        def copy_from_local(self, local_path):
            rendezvous()
            shutil.copyfile(local_path, self.remote)

        def copy_to_local(self, local_path):
            shutil.copyfile(self.remote, local_path)
            rendezvous()

        def get_modified_time(self):
            return get_modified_time(self.remote)

    try:
        stores_ = [RemoteMounted(_creator(c), os.path.join(directory, f"remote{i}.dat")) for i, c in enumerate(subs)]
        current = [None] * n
        written = [False] * n
        rounds = max(len(c["values"]) for c in subs) + 1
        for r in range(rounds):
            plan_ = []
            for i, c in enumerate(subs):
                if r < len(c["values"]):
                    plan_.append(("write", c["values"][r]))
                elif written[i]:
                    plan_.append(("read", None))
                else:
                    plan_.append(None)
            active = [i for i in range(n) if plan_[i] is not None]
            if not active:
                continue
            gate["barrier"] = threading.Barrier(len(active)) if len(active) > 1 else None
            results = [None] * n

            def work(i):
                try:
                    op, v = plan_[i]
                    results[i] = ("ok", stores_[i].write(v) if op == "write" else stores_[i].read())
                except BaseException as e:  # noqa: B902
                    results[i] = ("err", e)

            ts = [threading.Thread(target=work, args=(i,)) for i in active]
            for t in ts:
                t.start()
            for t in ts:
                t.join(30)
            gate["barrier"] = None
            tag = f"[round {r}: {[p[0] if p else None for p in plan_]} at the same time on {n} MountedStores] "
            for i in active:
                if results[i] is None:
                    raise runner.Inconclusive("store operation did not finish within 30 s")
                op, v = plan_[i]
                if results[i][0] == "err":
                    ctx.violation(case, tag + f"store {i} ({subs[i]['kind']}) {op} raised {results[i][1]!r}")
                if op == "write":
                    current[i], written[i] = v, True
                else:
                    why = deep_eq(current[i], results[i][1])
                    if why:
                        ctx.violation(case, tag + f"store {i} ({subs[i]['kind']}) read() != the value written to it: {why}; "
                                                  f"wrote {current[i]!r:.200}, read {results[i][1]!r:.200}")
            for i in range(n):  # afterwards, one at a time
                if written[i]:
                    try:
                        got = stores_[i].read()
                    except Exception as e:
                        ctx.violation(case, tag + f"afterwards store {i} ({subs[i]['kind']}) read raised {e!r}")
                    why = deep_eq(current[i], got)
                    if why:
                        ctx.violation(case, tag + f"afterwards store {i} ({subs[i]['kind']}) holds {got!r:.200}, the value "
                                                  f"written to it was {current[i]!r:.200}: {why}")
    finally:
        shutil.rmtree(directory, ignore_errors=True)


def make_store(case, directory):
    from uberjob import stores
    from uberjob._testing import TestMountedFileStore

    kind, enc = case["kind"], case["encoding"]

    def create(path):
        if case["pathlib"]:
            path = pathlib.Path(path)
        if kind == "json":
            return stores.JsonFileStore(path, encoding=enc)
        if kind == "text":
            return stores.TextFileStore(path, encoding=enc)
        if kind == "pickle":
            return stores.PickleFileStore(path)
        if kind == "binary":
            return stores.BinaryFileStore(path)
        return stores.TouchFileStore(path)

    if case["mounted"]:
        return TestMountedFileStore(create)
    style = case.get("pathstyle", "abs")
    if style == "bare":
        return create("value.dat")
    if style == "dot":
        return create(os.path.join(".", "value.dat"))
    if style == "sub":
        os.makedirs(os.path.join(directory, "sub"), exist_ok=True)
        return create(os.path.join("sub", "value.dat"))
    return create(os.path.join(directory, "value.dat"))


def _nontrivial(case):
    for v in case["values"]:
        if depth_of(v) >= 3:
            return True
        if isinstance(v, (str, bytes)) and len(v) >= 65536:
            return True
        if _has_special(v):
            return True
    return False


def _has_special(v):
    if isinstance(v, str):
        return any(ord(c) < 32 or ord(c) > 126 or c in LINE_TERMINATORS for c in v)
    if isinstance(v, (bytes, bytearray)):
        return any(b < 32 or b > 126 for b in v)
    if isinstance(v, dict):
        return any(_has_special(k) or _has_special(x) for k, x in v.items())
    if isinstance(v, (list, tuple, set, frozenset)):
        return any(_has_special(x) for x in v)
    return False


def check_case(ctx, case, record=True):
    """Returns None or raises runner.Violation."""
    if record:
        classes = [f"kind:{case['kind']}", "mounted" if case["mounted"] else "direct",
                   "pathlib" if case["pathlib"] else "strpath", f"enc:{case['encoding']}"]
        if any(isinstance(v, str) and ("\r" in v) for v in case["values"]):
            classes.append("has_CR")
        if case.get("foreign") is not None:
            classes.append("path_held_foreign_content")
        classes.append("pathstyle:" + case.get("pathstyle", "abs"))
        ctx.case(case, _nontrivial(case), classes)
    directory = tempfile.mkdtemp(prefix="c12-")
    old_cwd = os.getcwd()
    try:
        if case.get("pathstyle", "abs") != "abs":
            os.chdir(directory)  # relative spellings are relative to the working directory (one case at a time)
        store = make_store(case, directory)
        if case.get("foreign") is not None:
            with open(os.path.join(directory, "sub" if case.get("pathstyle") == "sub" else "", "value.dat"), "wb") as f:
                f.write(case["foreign"].encode("utf-8", "surrogatepass"))
        try:
            t = store.get_modified_time()
        except Exception as e:
            ctx.violation(case, f"get_modified_time on an empty store raised {e!r}")
        if t is not None and case.get("foreign") is None:
            ctx.violation(case, f"get_modified_time before any write is {t!r}, expected None")
        if t is None and case.get("foreign") is not None:
            ctx.violation(case, "get_modified_time is None although the path holds a file")
        last = None
        for value, nreads in zip(case["values"], case["reads"]):
            try:
                store.write(value)
            except Exception as e:
                ctx.violation(case, f"write({value!r:.200}) raised {type(e).__name__}: {e}")
            t = store.get_modified_time()
            if t is None:
                ctx.violation(case, "get_modified_time is None after a successful write")
            if not isinstance(t, dt.datetime):
                ctx.violation(case, f"get_modified_time returned {type(t).__name__}")
            if last is not None and t < last:
                ctx.violation(case, f"modified time decreased across writes: {last} -> {t}")
            last = t
            for _ in range(nreads + 1):
                try:
                    got = store.read()
                except Exception as e:
                    ctx.violation(case, f"read after write({value!r:.200}) raised {type(e).__name__}: {e}")
                why = deep_eq(value, got)
                if why:
                    ctx.violation(case, f"read() != written value: {why}; wrote {value!r:.300}, read {got!r:.300}",
                                  key=_key(case, value, got))
            t2 = store.get_modified_time()
            if t2 != t:
                ctx.violation(case, f"modified time changed by read: {t} -> {t2}")
    finally:
        os.chdir(old_cwd)
        shutil.rmtree(directory, ignore_errors=True)


TZ_TRANSITIONS = [("America/New_York", 1636264800), ("Europe/London", 1635642000),
                  ("Australia/Lord_Howe", 1617462000), ("America/St_Johns", 1636259400),
                  ("America/New_York", 1615705200), ("UTC", 1636264800), ("Asia/Kolkata", 1636264800),
                  # files stamped with the Unix epoch itself (reproducible-build tooling, `touch -d @0`) and around it
                  ("UTC", 0), ("America/New_York", 0)]


@st.composite
def tz_cases(draw):
    zone, base = draw(st.sampled_from(TZ_TRANSITIONS))
    near = st.one_of(st.integers(-3700, 3700), st.sampled_from([-3600, -1800, -1, 0, 1, 1800, 3599, 3600]))
    instants = sorted({max(0, base + draw(near)) for _ in range(draw(st.integers(2, 4)))})
    return {"fam": "tz", "zone": zone, "kind": draw(st.sampled_from(["json", "pickle", "text", "binary", "touch"])),
            "mounted": False, "pathlib": draw(st.booleans()), "encoding": None, "instants": instants}


def check_tz_case(ctx, case, record=True):
    """Successive writes at known instants (file mtime stamped with os.utime) under a process time zone with
    daylight saving: the reported modified times, read as the instants they denote (naive = local time, with
    its fold), never decrease.  Under naive comparison the *unchanged* stores 'decrease' across a fall-back,
    so instants are the only reading under which the statement can hold."""
    import time as _time

    if record:
        ctx.case(case, case["zone"] != "UTC" or 0 in case["instants"],
                 [f"tz:{case['zone']}", "fam:tz", f"kind:{case['kind']}"] + (["mtime_is_unix_epoch"] if 0 in case["instants"] else []))
    directory = tempfile.mkdtemp(prefix="c12-")
    old = os.environ.get("TZ")
    os.environ["TZ"] = case["zone"]
    _time.tzset()
    try:
        store = make_store(case, directory)
        value = {"json": [1], "pickle": (1,), "text": "x", "binary": b"x", "touch": None}[case["kind"]]
        last = None
        for t in case["instants"]:
            store.write(value)
            os.utime(os.fspath(store.path), (t, t))
            m = store.get_modified_time()
            if m is None:
                ctx.violation(case, "get_modified_time is None after a successful write")
            inst = m.timestamp()
            if last is not None and inst < last[0]:
                ctx.violation(case, f"[TZ={case['zone']}] modified time decreased across writes: file written at instant "
                                    f"{last[2]} reported {last[1]!r} (fold={last[1].fold}), then written at {t} reported "
                                    f"{m!r} (fold={m.fold}), which denotes an earlier instant")
            last = (inst, m, t)
    finally:
        if old is None:
            os.environ.pop("TZ", None)
        else:
            os.environ["TZ"] = old
        _time.tzset()
        shutil.rmtree(directory, ignore_errors=True)


def _key(case, value, got):
    if case["kind"] == "text" and isinstance(value, str) and isinstance(got, str):
        if value.replace("\r\n", "\n").replace("\r", "\n") == got:
            return "text-universal-newlines"
    return None


def run_shard(ctx):
    @given(cases())
    def test(case):
        runner.guarded(ctx, check_case, case)

    runner.drive(ctx, test, ctx.n(12000, 120000))

    @given(tz_cases())
    def test_tz(case):
        runner.guarded(ctx, check_tz_case, case)

    runner.drive(ctx, test_tz, ctx.n(2400, 16000))

    @given(overlap_cases())
    def test_overlap(case):
        runner.guarded(ctx, check_overlap_case, case)

    runner.drive(ctx, test_overlap, ctx.n(1200, 12000))


def replay(ctx, case):
    if case.get("fam") == "tz":
        try:
            check_tz_case(ctx, case, record=False)
        except runner.Violation as v:
            return v.msg
        return None
    if case.get("fam") == "overlap":
        case = dict(case, subs=[decode_case(c) for c in case["subs"]])
        for _ in range(3):
            try:
                runner.guarded(ctx, check_overlap_case, case, record=False)
            except runner.Violation as v:
                return v.msg
        return None
    case = decode_case(case)
    try:
        runner.guarded(ctx, check_case, case)
    except runner.Violation as v:
        return v.msg
    return None


def decode_case(case):
    from vlib.util import uncanon

    c = dict(case)
    c["values"] = [uncanon(v) for v in case["values"]]
    return c
