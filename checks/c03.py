"""C03 - an incremental run gives the same outputs and stored values as from scratch."""
from hypothesis import given

from checks import common, regcommon
from vlib import refmodel, runner, specs, world

ID = "C03"
LEVEL = "exploration"
SHARDS = {"quick": 8, "thorough": 16}
LEVEL_TEXT = (
    "Generated histories (operation sequences drawn and shrunk as one value by Hypothesis) over generated registry "
    "worlds: successful runs with any output/workers/scheduler/fresh_time, runs cut by an injected fault at the k-th "
    "operation (before/after effect, Exception/BaseException, 'process death'), source updates, deletions of stored "
    "values. After every run that returns, output and every non-source store are compared with an independent "
    "from-scratch interpreter over the spec (normalising stores make read-back vs in-memory value visible). Bounded "
    "(<= 8/12 nodes, <= 7/10 operations); presence not absence."
)
LEVEL_NOTE = (
    "In-memory logical-clock stores (strictly increasing distinct modified times, as the statement assumes); reference "
    "interpreter vlib/refmodel.Ref trusted; generator soundness rules of DESIGN.md 2.1 (fresh_time <= clock, a dependent "
    "source's writer has that source as only successor, pure sources never deleted)."
)
TECHNIQUE = "model-based property testing over generated histories (Hypothesis) against a from-scratch reference interpreter"
RULE = (
    "Hypothesis draws a registry world (stored calls, stored literals, pure and dependent sources, alias sources, "
    "sources with extra dependencies, registry.add issued late in any order, literal chains / barrier idiom, calls that "
    "read a store directly and are ordered after it by a plain dependency (possibly through a literal), unstored chains, "
    "plain-dependency edges, unpack/gather nodes) and a history of 2..7 operations (run / run with fault at op k in "
    "{before, after, BaseException, dead} / source update / delete stored value / run with fresh_time = clock - d), always "
    "ending in a plain run. Oracle after every run that returns normally: output == from-scratch value, every "
    "registry.add store holds the from-scratch raw value, every dependent source holds its writer's from-scratch value. "
    "Non-trivial = >= 2 runs with >= 1 disturbing operation (fault, update, delete, fresh_time) before a later run, and "
    "a stored node with a registry ancestor. Distinct = SHA-1 of the case."
)
ASSUMPTIONS = ["deterministic call functions; stores return what was last written; logical modified times increase with every write"]


def nontrivial(case):
    ops = case["ops"]
    runs = [i for i, op in enumerate(ops) if op["op"] == "run"]
    disturbed = any(op["op"] != "run" or op.get("fault") or "fresh_off" in op for op in ops[1:-1] + ops[:1])
    return len(runs) >= 2 and disturbed and "stored_with_registry_ancestor" in regcommon.spec_classes(case["spec"])


def check_case(ctx, case, record=True):
    spec = case["spec"]
    if record:
        cl = regcommon.spec_classes(spec)
        for op in case["ops"]:
            cl.append("op:" + op["op"] + (":fault:" + op["fault"]["mode"] if op.get("fault") else ""))
            if "fresh_off" in op:
                cl.append("op:fresh_time")
        ctx.case(case, nontrivial(case), cl)
    w = world.World(spec, registry=True)
    w.init_sources()
    for n, op in enumerate(case["ops"]):
        tag = f"[op {n}: {regcommon.describe(op)}] "
        if op["op"] == "update":
            w.set_source(op["src"])
        elif op["op"] == "delete":
            w.delete(op["entry"])
        else:
            out, ft = regcommon.run_op(w, op)
            if out.verdict or out.uncaught:
                ctx.violation(case, tag + f"scheduler verdict {out.verdict} {out.verdict_info}; uncaught={out.uncaught!r}")
            fault_hit = any(e[1] in ("fault", "dead") for e in w.events)
            if out.status == "ok":
                msg = regcommon.check_from_scratch(w, out, op, tag)
                if msg:
                    ctx.violation(case, msg)
                if record:
                    ctx.count("runs_ok_after_fault" if fault_hit else "runs_ok")
            else:
                if not fault_hit:
                    ctx.violation(case, tag + f"run failed although nothing was injected: {type(out.value).__name__}: {out.value} "
                                              f"(cause {getattr(out.value, '__cause__', None)!r})")
                if record:
                    ctx.count("runs_failed_by_fault")


def run_shard(ctx):
    max_nodes, max_ops = (8, 6) if ctx.tier == "quick" else (12, 9)

    @given(regcommon.reg_cases(max_nodes=max_nodes, max_ops=max_ops, xdeps=True, alias=True, sread=True))
    def test(case):
        runner.guarded(ctx, check_case, case)

    runner.drive(ctx, test, ctx.n(9000, 100000))


def replay(ctx, case):
    case = common.decode(case)
    for _ in range(5):
        try:
            check_case(ctx, case, record=False)
        except runner.Violation as v:
            return v.msg
    return None
