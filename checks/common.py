"""Helpers shared by the schedule-quantified checks."""
from vlib import harness, refmodel, specs, world
from vlib.util import uncanon


def all_refs_output(spec, lits=True):
    """Output naming every referenceable node; with lits=False literals are left out (a literal that is
    an argument of the output is never a candidate for literal pruning)."""
    refs = []
    for i, nd in enumerate(spec["nodes"]):
        if nd["k"] == "lit" and not lits:
            continue
        if nd["k"] == "unpack":
            refs.extend({"u": i, "j": j} for j in range(nd["n"]))
        elif nd["k"] == "gather" and ("n" in nd["v"] or "u" in nd["v"]):
            continue
        elif nd["k"] == "call" and (nd.get("side") is not None or nd["beh"]["t"] == "seq"):
            continue
        else:
            refs.append({"n": i})
    return {"L": refs}


def run_world(case, registry=False, output="spec", trace=True, after=None, w=None, **kw):
    sc = case["sched"]
    if w is None:
        w = world.World(case["spec"], registry=registry, pause=harness.pause_for(sc))
    out = harness.execute(lambda: w.run(case.get("cfg"), output=output, registry=registry, **kw),
                          sc, trace=trace, after=after)
    return w, out


def sched_classes(case, out):
    sc = case["sched"]
    cl = [f"mode:{sc.get('mode')}", f"policy:{sc.get('policy', '-')}"]
    cfg = case.get("cfg") or {}
    cl.append(f"scheduler:{cfg.get('scheduler')}")
    cl.append("workers>=2" if (cfg.get("workers") or 1) >= 2 else "workers=1")
    if out is not None and out.engine_switches:
        cl.append("engine_switch")
    return cl


def harness_ok(ctx, case, out):
    """Harness-level sanity: an exception that escaped a model worker thread is reported by the
    property that owns it; here we only make sure the scheduler itself did not wedge."""
    return out


def decode(case):
    return uncanon(case)


def fanin2(spec):
    return any(len(specs.preds(nd)) >= 2 for nd in spec["nodes"])
