"""C04 - each needed call runs exactly once and nothing unneeded runs."""
import collections
import contextlib
import functools

from hypothesis import given, strategies as st

from checks import common
from vlib import harness, refmodel, runner, specs, world

ID = "C04"
LEVEL = "exploration"
SHARDS = {"quick": 8, "thorough": 16}
LEVEL_TEXT = (
    "Generated-input search over (plan, output spec, failing/flaky calls, retry, max_errors, workers, scheduler, "
    "thread schedule) with the schedule owned by the harness (deterministic scheduler with opcode-level preemption "
    "in the engine) plus real-thread runs. Oracle: execution counters per call against an independent needed-set "
    "computed from the spec (ancestors of the output), two-sided; built-in gather/unpack executions are observed "
    "through counting wrappers. Bounded; presence not absence."
)
LEVEL_NOTE = "Trusts vlib/detsched.py's threading model and the needed-set computation in vlib/refmodel.py (spec-level ancestor closure)."
TECHNIQUE = "property-based testing with harness-owned schedules; execution-count oracle vs. spec-level ancestor closure"
RULE = (
    "Hypothesis draws a plan spec, an output spec (none / literal only / node / structure of nodes), calls that always "
    "fail or fail on their first j attempts, retry in {None,1..4,custom}, max_errors, workers, scheduler and a schedule. "
    "Oracle: no call starts more often than its allowed attempts (exactly min(j+1, n) for a flaky call that ran); in a "
    "successful run the set of started calls equals the spec-level ancestors of the output, each exactly once, and the "
    "number of executed built-in gather calls does not exceed the number of node-holding containers in that part. "
    "Non-trivial = the output excludes >= 1 call, or fan-in >= 2 under >= 2 workers with an engine-level context switch "
    "(or real threads). Distinct = SHA-1 of the case."
)
ASSUMPTIONS = ["operator.getitem executions of unpack elements are not counted (C function)"]


@contextlib.contextmanager
def counting_builtins(counter):
    import uberjob._builtins as b
    import uberjob._plan as p

    saved_lookup = dict(p.GATHER_LOOKUP)
    saved_unpack = b.unpack

    import threading
    lock = threading.Lock()

    def wrap(f):
        @functools.wraps(f)
        def g(*a, **k):
            with lock:
                counter[f.__name__] += 1
            return f(*a, **k)
        return g

    for t, f in saved_lookup.items():
        p.GATHER_LOOKUP[t] = wrap(f)
    b.unpack = wrap(saved_unpack)
    try:
        yield
    finally:
        p.GATHER_LOOKUP.clear()
        p.GATHER_LOOKUP.update(saved_lookup)
        b.unpack = saved_unpack


@st.composite
def cases(draw, max_nodes):
    failing = draw(st.sampled_from([0, 0, 0, 2, 3]))
    flaky = draw(st.booleans())
    spec = draw(specs.plan_specs(max_nodes=max_nodes, min_nodes=2, opaque=False, failures=failing, flaky=flaky, lits=2))
    cfg = draw(specs.run_configs(nodes=len(spec["nodes"]), max_errors=bool(failing), retry=True))
    return {"spec": spec, "cfg": cfg, "sched": draw(harness.schedules())}


def check_case(ctx, case, record=True):
    spec, cfg = case["spec"], case["cfg"]
    counter = collections.Counter()
    with counting_builtins(counter):
        w, out = common.run_world(case)
    need = refmodel.needed(spec, output=spec.get("output"), registry=False)
    callset = {i for i, nd in enumerate(spec["nodes"]) if nd["k"] == "call"}
    excluded = callset - need["exec"]
    fan = common.fanin2(spec)
    nontrivial = bool(excluded) or (fan and cfg["workers"] >= 2 and (out.mode == "real" or out.engine_switches >= 1))
    if record:
        cl = common.sched_classes(case, out) + [f"status:{out.status}"]
        if excluded:
            cl.append("output_excludes_calls")
        if cfg.get("retry") is not None:
            cl.append("retry")
        o = spec.get("output")
        cl.append("output:none" if o is None else "output:literal" if not specs.has_ref(o) else "output:nodes")
        ctx.case(case, nontrivial, cl)
    case2 = dict(case, sched=harness.with_trace(case["sched"], out))
    if out.verdict or out.uncaught:
        ctx.violation(case2, f"scheduler verdict {out.verdict} {out.verdict_info}; uncaught={out.uncaught!r}")
    n_attempts = world.retry_attempts(cfg.get("retry"))
    obs = refmodel.observed(w)["exec"]
    ends = collections.Counter(e[2] for e in w.events if e[1] == "end")
    for i, cnt in obs.items():
        beh = spec["nodes"][i]["beh"]
        retriable = beh["t"] == "raise" and beh["exc"] in ("exc", "val")
        allowed = n_attempts if retriable else 1
        if beh["t"] == "raise" and beh["first"] > 0 and retriable:
            expected = min(beh["first"] + 1, n_attempts)
            if cnt != expected:
                ctx.violation(case2, f"flaky call {i} (fails first {beh['first']} attempts, retry={cfg.get('retry')}) "
                                     f"was attempted {cnt} times, expected {expected}")
        elif cnt > allowed:
            ctx.violation(case2, f"call {i} was executed {cnt} times (allowed attempts: {allowed})")
        if ends[i] > 1:
            ctx.violation(case2, f"call {i} completed {ends[i]} times in one run")
    if set(obs) - need["exec"]:
        ctx.violation(case2, f"calls {sorted(set(obs) - need['exec'])} were executed although the output does not depend on them "
                             f"(needed: {sorted(need['exec'])})")
    if out.status == "ok":
        if set(obs) != need["exec"]:
            ctx.violation(case2, f"successful run executed calls {sorted(obs)}, expected exactly {sorted(need['exec'])}")
        g = sum(v for k, v in counter.items() if k.startswith("gather_"))
        # upper bound only: more executions than node-holding containers means a built-in call ran twice or an
        # unneeded one ran; fewer is an implementation's business (it may fuse nested gathers)
        if g > need["gathers"]:
            ctx.violation(case2, f"{g} built-in gather calls executed, at most {need['gathers']} are needed ({dict(counter)})")
        nun = sum(1 for i in need["active"] if spec["nodes"][i]["k"] == "unpack")
        if counter["unpack"] != nun:
            ctx.violation(case2, f"{counter['unpack']} unpack calls executed, expected {nun}")


def run_shard(ctx):
    max_nodes = 8 if ctx.tier == "quick" else 14

    @given(cases(max_nodes))
    def test(case):
        runner.guarded(ctx, check_case, case)

    runner.drive(ctx, test, ctx.n(12800, 160000))


def replay(ctx, case):
    case = common.decode(case)
    for sc in harness.replay_schedules(case["sched"]):
        try:
            check_case(ctx, dict(case, sched=sc), record=False)
        except runner.Violation as v:
            return v.msg
    return None
