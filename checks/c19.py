"""C19 - a failure is attributed to the user line that created the failing symbolic call."""
import _thread
import os
import shutil
import sys
import tempfile
import threading

import uberjob
from hypothesis import given, strategies as st
from uberjob._value_store import ValueStore

from vlib import runner
from vlib.util import uncanon

ID = "C19"
LEVEL = "exploration"
SHARDS = {"quick": 4, "thorough": 16}
LEVEL_TEXT = (
    "Generated programs: the source text of a plan-building module with helper functions nested d in 0..8 deep (distinct, "
    "randomly padded line numbers), written to a real file, compiled and entered from a raw _thread.start_new_thread so the "
    "bottom of the stack is controlled; the failing symbolic call is of a generated kind (plan.call, implicit gather inside "
    "a call, plan.gather, plan.unpack, registry.add with failing write / failing read-back, registry.source with failing "
    "read, failing modified-time query of a stored call / of a source) and fails in the phase that kind implies. Oracle: an "
    "independent frame walk with sys._getframe() on the very source line of the API call gives the expected (name, path, "
    "line) chain; CallError.call.stack_frame must equal its first MAX_TRACEBACK_DEPTH+1 entries followed by the truncation "
    "marker iff more frames existed, and str(CallError) must list them outermost first. Bounded; presence not absence."
)
LEVEL_NOTE = "The expected chain comes from CPython's own frame objects captured on the same line; the depth limit is read from uberjob (MAX_TRACEBACK_DEPTH)."
TECHNIQUE = "property-based testing over generated programs: differential comparison of symbolic tracebacks with an independent sys._getframe walk"
RULE = (
    "(also: the creating line inside a helper called from one line of a generator that two routes advance) Hypothesis draws (site kind in 13 kinds, optionally a second harmless route to the same site line before or after, nesting depth 0..8, per-function blank-line padding, worker count, "
    "scheduler, and the file name the user's code object carries: the real temporary file, a directory beside the library whose name begins with the library's, a directory called uberjob, another distribution under the same site directory). Non-trivial = depth >= 1 or a site kind other than plan.call. Distinct = SHA-1 of the case."
)
ASSUMPTIONS = ["failures of the gathered *output* of run and modified-time failures on registered Literals are outside the statement"]

KINDS = ["call", "implicit_gather", "gather", "unpack", "add_write", "add_read", "source_read", "mt_stored",
         "mt_source", "call_kw", "add_read_fresh", "add_read_fresh_elsewhere", "call_nested"]


class FailStore(ValueStore):
    def __init__(self, fail, has_value=False):
        self.fail = fail
        self.value = 5
        self.has_value = has_value

    def read(self):
        if self.fail == "read":
            raise IOError("read fails")
        return self.value

    def write(self, v):
        if self.fail == "write":
            raise IOError("write fails")
        self.value = v
        self.has_value = True

    def get_modified_time(self):
        import datetime as dt
        if self.fail == "mt":
            raise IOError("modified time fails")
        return dt.datetime(2020, 1, 1) if self.has_value else None


def boom(*a, **k):
    raise RuntimeError("boom")


def returns_list():
    return [1]


def nested_boom(*a, **k):
    inner = uberjob.Plan()
    x = inner.call(boom, 2)
    return uberjob.run(inner, output=x, progress=None)


def walk(frame):
    out = []
    while frame is not None:
        out.append((frame.f_code.co_name, frame.f_code.co_filename, frame.f_lineno))
        frame = frame.f_back
    return out


SITE = {
    "call": ["c.node = c.plan.call(c.boom, 1); c.frames = c.walk(sys._getframe())"],
    # the failing call itself runs another plan whose call fails: the outer error names the OUTER call
    "call_nested": ["c.node = c.plan.call(c.nested_boom, 1); c.frames = c.walk(sys._getframe())"],
    "call_kw": ["c.node = c.plan.call(c.boom, x=[c.plan.call(c.returns_list)]); c.frames = c.walk(sys._getframe())"],
    "implicit_gather": ["inner = c.plan.call(c.returns_list)",
                        "c.outer = c.plan.call(len, {inner}); c.frames = c.walk(sys._getframe())"],
    "gather": ["inner = c.plan.call(c.returns_list)",
               "c.node = c.plan.gather([1, {inner}]); c.frames = c.walk(sys._getframe())"],
    "unpack": ["inner = c.plan.call(c.returns_list)",
               "c.node = c.plan.unpack(inner, 3)[0]; c.frames = c.walk(sys._getframe())"],
    "add_write": ["c.node = c.plan.call(c.returns_list)",
                  "c.registry.add(c.node, c.FailStore('write')); c.frames = c.walk(sys._getframe())"],
    "add_read": ["c.node = c.plan.call(c.returns_list)",
                 "c.registry.add(c.node, c.FailStore('read')); c.frames = c.walk(sys._getframe())"],
    # the store already holds an up-to-date value (history: an earlier run filled it): only the read runs
    "add_read_fresh": ["c.node = c.plan.call(c.returns_list)",
                       "c.registry.add(c.node, c.FailStore('read', True)); c.frames = c.walk(sys._getframe())"],
    # ... and the node itself was created somewhere else (another function, another line)
    "add_read_fresh_elsewhere": ["c.node = make_node(c)",
                                 "c.registry.add(c.node, c.FailStore('read', True)); c.frames = c.walk(sys._getframe())"],
    "source_read": ["c.node = c.registry.source(c.plan, c.FailStore('read', True)); c.frames = c.walk(sys._getframe())"],
    "mt_stored": ["c.node = c.plan.call(c.returns_list); c.frames = c.walk(sys._getframe())",
                  "c.registry.add(c.node, c.FailStore('mt'))"],
    "mt_source": ["c.node = c.registry.source(c.plan, c.FailStore('mt', True)); c.frames = c.walk(sys._getframe())"],
}


def source_text(case):
    d = case["depth"]
    pads = case["pads"]
    lines = ["import sys", ""]

    def pad(i):
        lines.extend([""] * pads[i % len(pads)])

    lines.append("def make_node(c):")
    lines.append("    return c.plan.call(c.returns_list)")
    pad(0)
    if case.get("genroute"):
        # the creating line sits in a helper called from ONE line of a generator that is advanced from whichever
        # route comes by (a node factory written as a generator): same generator frame, same line, different callers
        lines.append("def site_body(c):")
        for ln in SITE[case["kind"]]:
            lines.append("    " + ln)
        lines.append("def site_gen(c):")
        lines.append("    while True:")
        lines.append("        site_body(c)")
        lines.append("        yield")
        lines.append("def site(c):")
        lines.append("    if c.gen is None:")
        lines.append("        c.gen = site_gen(c)")
        lines.append("    next(c.gen)")
    else:
        lines.append("def site(c):")
        for ln in SITE[case["kind"]]:
            lines.append("    " + ln)
    prev = "site"
    for i in range(1, d + 1):
        pad(i)
        name = f"helper_{i}"
        lines.append(f"def {name}(c):")
        if i % 2:
            lines.append("    x = 1")
        lines.append(f"    {prev}(c)")
        prev = name
    # a second route to the same site line (different enclosing frames), harmless at run time: whatever
    # uberjob remembers per code location must not leak from one route into the other
    decoy = case.get("decoy")
    alt = "site"
    if decoy is not None:
        for i in range(1, decoy["depth"] + 1):
            pad(i + 1)
            lines.append(f"def alt_{i}(c):")
            lines.append(f"    {alt}(c)")
            alt = f"alt_{i}"
    pad(d + 1)
    lines.append("def entry(c):")
    lines.append("    try:")
    if decoy is not None and decoy["first"]:
        lines.append("        c.decoy(True)")
        lines.append(f"        {alt}(c)")
        lines.append("        c.decoy(False)")
    if case.get("via_import"):
        # the top helper is called by module-level code of a module that is being imported (a pipeline-definition
        # module): the enclosing frames then include the import system's own frames
        lines.append(f"        c.top = {prev}")
        lines.append("        c.import_pipeline(c)")
    else:
        lines.append(f"        {prev}(c)")
    if decoy is not None and not decoy["first"]:
        lines.append("        c.save()")
        lines.append("        c.decoy(True)")
        lines.append(f"        {alt}(c)")
        lines.append("        c.decoy(False)")
        lines.append("        c.restore()")
    lines.append("    except BaseException as e:")
    lines.append("        c.error = e")
    lines.append("    finally:")
    lines.append("        c.done.set()")
    return "\n".join(lines) + "\n"


class OkStore(ValueStore):
    def read(self):
        return 5

    def write(self, v):
        pass

    def get_modified_time(self):
        import datetime as dt
        return dt.datetime(2020, 1, 1)


def ok_fn(*a, **k):
    return 0


_PIPELINE_COUNTER = [0]


class Ctx:
    def import_pipeline(self, c):
        import builtins
        import importlib
        import sys
        _PIPELINE_COUNTER[0] += 1
        name = f"c19_pipeline_{os.getpid()}_{_PIPELINE_COUNTER[0]}"
        with open(os.path.join(self.dir, name + ".py"), "w") as f:
            f.write("import builtins\nc = builtins._c19_ctx\nc.top(c)\n")
        builtins._c19_ctx = c
        sys.path.insert(0, self.dir)
        try:
            importlib.invalidate_caches()
            importlib.import_module(name)
        finally:
            sys.path.remove(self.dir)
            sys.modules.pop(name, None)
            del builtins._c19_ctx

    def decoy(self, on):
        if on:
            self._real = (self.boom, self.FailStore)
            self.boom, self.FailStore = ok_fn, (lambda *a, **k: OkStore())
        else:
            self.boom, self.FailStore = self._real

    def save(self):
        self._saved = (self.node, self.outer, self.frames)

    def restore(self):
        self.node, self.outer, self.frames = self._saved


@st.composite
def cases(draw):
    decoy = None
    if draw(st.booleans()):
        decoy = {"depth": draw(st.integers(0, 4)), "first": draw(st.sampled_from([True, True, False]))}
    return {"kind": draw(st.sampled_from(KINDS)), "depth": draw(st.integers(0, 8)), "decoy": decoy,
            "pads": draw(st.lists(st.integers(0, 3), min_size=1, max_size=5)),
            "genroute": draw(st.sampled_from([False, False, True])),
            "via_import": draw(st.sampled_from([False, False, False, True])),
            "where": draw(st.sampled_from(["tmp", "tmp", "beside_library", "dir_named_uberjob", "site_packages_like"])),
            "workers": draw(st.integers(1, 3)), "scheduler": draw(st.sampled_from([None, "default", "random"]))}


def chain_of(stack_frame):
    from uberjob._util.traceback import TruncatedStackFrame

    out = []
    sf = stack_frame
    while sf is not None:
        if sf is TruncatedStackFrame:
            out.append("TRUNCATED")
            break
        out.append((sf.name, sf.path, sf.line))
        sf = sf.outer
    return out


def check_case(ctx, case, record=True):
    from uberjob._util.traceback import MAX_TRACEBACK_DEPTH

    if record:
        ctx.case(case, case["depth"] >= 1 or case["kind"] != "call",
                 [f"kind:{case['kind']}", f"depth:{case['depth']}",
                  "truncated" if case["depth"] + 2 > MAX_TRACEBACK_DEPTH + 1 else "not_truncated"]
                 + (["second_route_to_site"] if case.get("decoy") else [])
                 + (["site_inside_generator"] if case.get("genroute") else [])
                 + (["created_while_importing_a_module"] if case.get("via_import") else [])
                 + [f"user_code_path:{case.get('where', 'tmp')}"])
    d = tempfile.mkdtemp(prefix="c19-")
    try:
        path = os.path.join(d, "user_module.py")
        with open(path, "w") as f:
            f.write(source_text(case))
        # The file name the user's code object carries. Besides the real temporary file, user code may live anywhere:
        # in a directory next to the library whose name merely begins with the library's, in a checkout directory
        # called "uberjob", or in another distribution's directory under site-packages. Nothing is written there:
        # the code object is compiled with that name, which is all a frame knows about where its code came from.
        lib = os.path.dirname(os.path.abspath(uberjob.__file__))
        code_path = {"tmp": path,
                     "beside_library": os.path.join(lib + "_pipelines", "user_module.py"),
                     "dir_named_uberjob": os.path.join(d, "uberjob", "user_module.py"),
                     "site_packages_like": os.path.join(os.path.dirname(lib), "uberjob_contrib", "jobs", "user_module.py"),
                     }[case.get("where", "tmp")]
        ns = {}
        exec(compile(open(path).read(), code_path, "exec"), ns)
        c = Ctx()
        c.dir = d
        c.plan = uberjob.Plan()
        c.registry = uberjob.Registry()
        c.boom, c.returns_list, c.walk, c.FailStore = boom, returns_list, walk, FailStore
        c.nested_boom = nested_boom
        c.done = threading.Event()
        c.error = None
        c.frames = None
        c.gen = None
        c.node = None
        c.outer = None
        _thread.start_new_thread(ns["entry"], (c,))
        if not c.done.wait(30):
            raise runner.Inconclusive("plan-building thread did not finish")
        if c.error is not None:
            ctx.violation(case, f"building the plan raised {c.error!r}")
        frames = c.frames
        expected = frames[: MAX_TRACEBACK_DEPTH + 1]
        truncated = len(frames) > MAX_TRACEBACK_DEPTH + 1
        exp_chain = list(expected) + (["TRUNCATED"] if truncated else [])
        out = c.outer if case["kind"] == "implicit_gather" else c.node
        kw = dict(progress=None, max_workers=case["workers"])
        if case["scheduler"]:
            kw["scheduler"] = case["scheduler"]
        if case["kind"] in ("add_write", "add_read", "source_read", "mt_stored", "mt_source", "add_read_fresh",
                            "add_read_fresh_elsewhere"):
            kw["registry"] = c.registry
        try:
            uberjob.run(c.plan, output=out, **kw)
        except uberjob.CallError as e:
            err = e
        except BaseException as e:
            ctx.violation(case, f"run raised {type(e).__name__}: {e} instead of CallError")
        else:
            ctx.violation(case, "run did not fail")
        call = err.call
        want_fn = {"call": boom, "call_kw": boom, "call_nested": nested_boom, "add_write": FailStore.write, "add_read": FailStore.read,
                   "add_read_fresh": FailStore.read, "add_read_fresh_elsewhere": FailStore.read,
                   "source_read": FailStore.read, "mt_stored": returns_list}.get(case["kind"])
        if want_fn is not None and call.fn is not want_fn:
            ctx.violation(case, f"CallError.call.fn is {call.fn!r}, expected {want_fn!r}")
        name = getattr(call.fn, "__name__", "")
        want_name = {"implicit_gather": "gather_set", "gather": "gather_set", "unpack": "unpack", "mt_source": "source"}.get(case["kind"])
        if want_name and name != want_name:
            ctx.violation(case, f"CallError.call.fn is {call.fn!r}, expected the built-in {want_name}")
        got = chain_of(call.stack_frame)
        if got != exp_chain:
            ctx.violation(case, f"symbolic traceback {got} differs from the frames at the creating line {exp_chain}")
        # rendered message: outermost first
        text = str(err)
        lines = text.split("\n")
        if not lines[0].startswith("An exception was raised in a symbolic call to "):
            ctx.violation(case, f"unexpected first line of the message: {lines[0]!r}")
        if lines[1] != "Symbolic traceback (most recent call last):":
            ctx.violation(case, f"unexpected second line of the message: {lines[1]!r}")
        exp_lines = []
        for fr in reversed(exp_chain):
            if fr == "TRUNCATED":
                exp_lines.append("  ... truncated")
            else:
                exp_lines.append(f'  File "{fr[1]}", line {fr[2]}, in {fr[0]}')
        if lines[2:] != exp_lines:
            ctx.violation(case, f"rendered traceback {lines[2:]} differs from expected {exp_lines}")
        if err.__cause__ is None:
            ctx.violation(case, "CallError has no __cause__")
        if case["kind"] == "call_nested" and not isinstance(err.__cause__, uberjob.CallError):
            ctx.violation(case, f"the cause of the outer CallError is {err.__cause__!r}, expected the inner run's CallError")
    finally:
        shutil.rmtree(d, ignore_errors=True)


def run_shard(ctx):
    @given(cases())
    def test(case):
        runner.guarded(ctx, check_case, case)

    runner.drive(ctx, test, ctx.n(16000, 80000))


def replay(ctx, case):
    case = uncanon(case)
    try:
        runner.guarded(ctx, check_case, case, record=False)
    except runner.Violation as v:
        return v.msg
    return None
