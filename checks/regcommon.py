"""Registry worlds and generated histories shared by C03, C05, C08, C09, C13, C14."""
from hypothesis import strategies as st

from vlib import harness, refmodel, specs, world
from vlib.specs import W, vdiff

FAULT_MODES = ["before", "before", "after", "base", "dead"]


@st.composite
def reg_cases(draw, max_nodes=8, max_ops=6, faults=True, det_share=15, min_runs=1, disturb_last=False,
              late=True, xdeps=False, alias=False, lits=2, sread=False, foreign=False, store_args=False,
              falsy=True, hoistable=True):
    g = specs.Gen(draw, registry=True, opaque=False, late=late, xdeps=xdeps, alias=alias, lits=lits, sread=sread,
                  foreign=foreign, store_args=store_args)
    n = draw(st.integers(2, max_nodes))
    # make sure there is something to store
    while len(g.nodes) < n:
        g.add_any()
    nodes = g.nodes
    for nd in nodes:
        # a pure source whose store is a (logging) subclass of the bundled LiteralSource
        if nd["k"] == "src" and specs.src_kind(nd) == "pure" and not nd.get("foreign") and draw(st.integers(0, 5)) == 0:
            nd["litsrc"] = True
    if falsy:
        for nd in nodes:
            if (nd["k"] == "src" and not nd.get("alias") and not nd.get("foreign")) or nd.get("stored"):
                if draw(st.integers(0, 5)) == 0:
                    nd["falsy"] = True
    hoist = []
    if hoistable and draw(st.integers(0, 3)) == 0:
        cand = [i for i, nd in enumerate(nodes)
                if nd["k"] == "lit" or (nd["k"] == "src" and not nd.get("alias") and not nd.get("foreign"))]
        if cand:
            hoist = draw(st.permutations(cand))[: draw(st.integers(1, len(cand)))]
    pure = [i for i, nd in enumerate(nodes) if specs.src_kind(nd) == "pure" and not nd.get("foreign")]
    deletable = [i for i, nd in enumerate(nodes)
                 if (nd["k"] in ("call", "lit") and nd.get("stored")) or specs.src_kind(nd) == "dep"]
    ops = []
    nops = draw(st.integers(min_runs, max_ops))
    kinds = ["run"] * 4 + (["failrun"] * 2 if faults else []) + (["update"] * 2 if pure else []) + \
            (["delete"] * 2 if deletable else []) + ["run_fresh"]
    for _ in range(nops):
        k = draw(st.sampled_from(kinds))
        if k in ("run", "failrun", "run_fresh"):
            op = {"op": "run", "cfg": draw(specs.run_configs(nodes=len(nodes))), "output": g.output(),
                  "sched": draw(harness.schedules(real_share=100 - det_share))}
            if k == "run_fresh" or draw(st.sampled_from([False, False, True])):
                op["fresh_off"] = draw(st.sampled_from([0, 0, 1, 2, 3, 5, 8]))
            if draw(st.sampled_from([False] * 4 + [True])):
                op["cfg"]["stale_workers"] = draw(st.integers(1, 3))
            if k == "failrun":
                op["fault"] = {"k": draw(st.integers(0, 24)), "mode": draw(st.sampled_from(FAULT_MODES))}
                op["cfg"]["max_errors"] = draw(st.sampled_from([0, 0, None, 1, 3]))
            ops.append(op)
        elif k == "update":
            ops.append({"op": "update", "src": draw(st.sampled_from(pure))})
        else:
            ops.append({"op": "delete", "entry": draw(st.sampled_from(deletable))})
    if disturb_last and (pure or deletable) and draw(st.sampled_from([True, True, True, False])):
        if deletable and (not pure or draw(st.booleans())):
            ops.append({"op": "delete", "entry": draw(st.sampled_from(deletable))})
        else:
            ops.append({"op": "update", "src": draw(st.sampled_from(pure))})
    # always end with a plain successful run so the history is judged
    ops.append({"op": "run", "cfg": draw(specs.run_configs(nodes=len(nodes))), "output": g.output(),
                "sched": draw(harness.schedules(real_share=100 - det_share))})
    spec = {"nodes": nodes, "output": None}
    if hoist:
        spec["hoist"] = list(hoist)
    style = draw(st.sampled_from(["idx", "idx", "idx", "idx", "same", "long"]))
    if style != "idx":
        spec["store_repr"] = style
    return {"spec": spec, "ops": ops}


def times_of(w):
    return {i: s.time for i, s in w.stores.items()}


def fresh_tick(w, op):
    if "fresh_off" not in op:
        return None
    return max(0, w.clock - op["fresh_off"])


def run_op(w, op, trace=False, **kw):
    """Execute one 'run' op on world w (log reset first). Returns (outcome, fresh tick)."""
    w.reset_log()
    sc = op["sched"]
    w.pause = harness.pause_for(sc)
    cfg = dict(op["cfg"])
    ft = fresh_tick(w, op)
    if ft is not None:
        cfg["fresh"] = ft
    if op.get("fault"):
        w.fault = dict(op["fault"])
    out = harness.execute(lambda: w.run(cfg, output=op.get("output"), **kw), sc, trace=trace)
    w.fault = None
    w.dead = False
    return out, ft


def check_from_scratch(w, out, op, tag=""):
    """C03's postcondition after a run that returned: output and stored values equal from-scratch
    evaluation on the current source values. Returns None or a message."""
    ref = refmodel.Ref(w, registry=True)
    spec = w.spec
    if w.out_ref is not None:
        exp = ref.eval(w.out_ref)
        d = vdiff(exp, out.value)
        if d:
            return tag + f"output differs from from-scratch evaluation: {d}; expected {exp!r}, got {out.value!r}"
    elif out.value is not None:
        return tag + f"no output requested but run returned {out.value!r}"
    for i, nd in enumerate(spec["nodes"]):
        if i not in w.stores:
            continue
        s = w.stores[i]
        if specs.src_kind(nd) in ("pure", "alias"):
            continue
        if nd["k"] == "src":
            exp = W(ref.raw(nd["deps"][0]["n"]))
        else:
            exp = ref.raw(i)
        d = vdiff(exp, s.value)
        if d:
            return tag + f"store of node {i} holds {s.value!r}, from-scratch value is {exp!r}: {d}"
    return None


def describe(op):
    if op["op"] == "run":
        return f"run(out={op.get('output')}, cfg={op['cfg']}, fresh_off={op.get('fresh_off')}, fault={op.get('fault')})"
    return str(op)


def spec_classes(spec):
    cl = []
    nodes = spec["nodes"]
    if any(specs.src_kind(nd) == "dep" for nd in nodes):
        cl.append("dependent_source")
    if any(specs.src_kind(nd) == "pure" for nd in nodes):
        cl.append("pure_source")
    if any(specs.src_kind(nd) == "alias" for nd in nodes):
        cl.append("alias_source")
    if any(nd.get("xdeps") for nd in nodes):
        cl.append("source_with_extra_deps")
    if any(nd.get("foreign") for nd in nodes):
        cl.append("foreign_source")
    if spec.get("store_repr"):
        cl.append("store_reprs:" + spec["store_repr"])
    if any(nd.get("litsrc") for nd in nodes):
        cl.append("source_is_LiteralSource_subclass")
    if spec.get("hoist"):
        cl.append("creation_order_not_topological")
    if any(nd.get("falsy") for nd in nodes):
        cl.append("falsy_store")
    if any(nd.get("sread") is not None for nd in nodes):
        cl.append("side_read")
    if any(nd.get("late") is not None for nd in nodes):
        cl.append("late_registration")
    if any(nd["k"] == "lit" and nd.get("stored") for nd in nodes):
        cl.append("stored_literal")
    ent = refmodel.entries(spec)
    if any((specs.strict_ancestors(spec, i) & ent) for i in ent if nodes[i]["k"] != "src"):
        cl.append("stored_with_registry_ancestor")
    for i in ent:
        if nodes[i]["k"] == "src":
            continue
        for a in specs.preds(nodes[i]):
            if a not in ent and (specs.strict_ancestors(spec, a) & ent):
                cl.append("unstored_chain")
                break
    return sorted(set(cl))
