"""C02 - run returns exactly what direct evaluation of the call graph would return."""
from hypothesis import given, strategies as st

from checks import common
from vlib import harness, refmodel, runner, specs, world
from vlib.specs import vdiff

ID = "C02"
LEVEL = "exploration"
SHARDS = {"quick": 8, "thorough": 16}
LEVEL_TEXT = (
    "Generated-input search: expression graphs from a grammar (positional/keyword mixes, nested exact "
    "list/tuple/set/dict with nodes incl. nodes as dict keys and colliding keys, container subclasses and "
    "opaque objects, unpack of lists/tuples/generators, explicit gather) are run under three "
    "(workers, scheduler, schedule) configurations each and compared with an independent reference "
    "interpreter over the spec: type-exact structural equality of the result and of the arguments each call "
    "received, kwargs order, identity of node-free argument objects. Bounded sizes; presence not absence."
)
LEVEL_NOTE = (
    "The reference interpreter (vlib/refmodel.py) and the structural comparison (vlib/specs.vdiff) are trusted; "
    "call functions are harness closures returning structural terms."
)
TECHNIQUE = "property-based differential testing against a reference interpreter (Hypothesis grammar-based program generation)"
RULE = (
    "(also: 3 plans per shard of 1000-5000 calls - chain, fan-in, reduction tree, ladder - compared with plain evaluation; unpack operands whose len() is not their item count) Hypothesis draws a plan spec (<= 8 nodes quick / 12 thorough; build histories: the same mutable list/dict/set "
    "object passed to several calls and mutated in between, accumulator idiom, one container object at several positions of a structure) with an output spec (none / constant / node / "
    "nested structure) and three run configurations (workers, scheduler default/random/None, schedule: real threads "
    "or deterministic scheduler). Oracle: result and every call's received arguments equal the reference "
    "interpreter's, with exact types, kwargs in the order given, node-free arguments passed as the very objects, "
    "and identical results across configurations; a perturbed unpack length must raise CallError(ValueError). "
    "Non-trivial = a container nested >= 2 deep holding a node, or a call with >= 2 kwargs, or an opaque/subclass "
    "argument, or equal-valued dict keys. Distinct = SHA-1 of the case."
)
ASSUMPTIONS = ["call functions are deterministic; set/dict members are hashable (generator soundness rule)"]


@st.composite
def cases(draw, max_nodes):
    spec = draw(specs.plan_specs(max_nodes=max_nodes, opaque=True, shared=True))
    n = len(spec["nodes"])
    runs = []
    for _ in range(3):
        runs.append({"cfg": draw(specs.run_configs(nodes=n)),
                     "sched": draw(harness.schedules(real_share=80))})
    neg = None
    unpacks = [i for i, nd in enumerate(spec["nodes"]) if nd["k"] == "unpack"]
    if unpacks and draw(st.sampled_from([True] + [False] * 7)):
        neg = [draw(st.sampled_from(unpacks)), draw(st.sampled_from([-1, 1]))]
    return {"spec": spec, "runs": runs, "neg": neg}


def nontrivial(spec):
    for nd in spec["nodes"]:
        if nd["k"] == "call" and len(nd["kwargs"]) >= 2:
            return True
        for a in specs.node_args(nd):
            if _deep_node(a, 0) or _has_opaque(a) or _collide(spec, a):
                return True
    out = spec.get("output")
    return bool(out) and (_deep_node(out, 0) or _has_opaque(out) or _collide(spec, out))


def _deep_node(a, depth):
    if "n" in a or "u" in a:
        return depth >= 2
    if "c" in a:
        return False
    if "D" in a:
        return any(_deep_node(k, depth + 2) or _deep_node(v, depth + 2) for k, v in a["D"])
    return any(_deep_node(x, depth + 1) for x in a.get("L", a.get("T", a.get("S", a.get("items", [])))))


def _has_opaque(a):
    if "O" in a:
        return True
    if "D" in a:
        return any(_has_opaque(k) or _has_opaque(v) for k, v in a["D"])
    return any(_has_opaque(x) for x in a.get("L", a.get("T", a.get("S", []))))


def _collide(spec, a):
    if "D" in a:
        vals = []
        for k, v in a["D"]:
            if "n" in k and spec["nodes"][k["n"]]["k"] == "call" and spec["nodes"][k["n"]]["beh"]["t"] == "ret":
                vals.append(repr(spec["nodes"][k["n"]]["beh"]["v"]))
            elif "c" in k:
                vals.append(repr(k["c"]))
            if _collide(spec, k) or _collide(spec, v):
                return True
        return len(vals) != len(set(vals))
    if "S" in a or "L" in a or "T" in a:
        return any(_collide(spec, x) for x in a.get("L", a.get("T", a.get("S", []))))
    return False


def _slot_uses(spec):
    """slot -> contents at each node-bearing use (build order)."""
    uses = {}

    def walk(a):
        if isinstance(a, list):
            for x in a:
                walk(x)
        elif isinstance(a, dict):
            if "sh" in a and specs.has_ref(a):
                uses.setdefault(a["sh"], []).append({k: v for k, v in a.items() if k != "sh"})
            for k, v in a.items():
                if k in ("L", "T", "S", "D", "items"):
                    walk(v)

    for nd in spec["nodes"]:
        for a in specs.node_args(nd):
            walk(a)
    if spec.get("output"):
        walk(spec["output"])
    return uses


def identity_check(refstruct, got, path):
    """Node-free argument sub-objects must be the very objects supplied."""
    t = refstruct[0]
    if t == "obj":
        if got is not refstruct[1]:
            return f"argument object at {path} was replaced (supplied {refstruct[1]!r}, received {got!r})"
        return None
    if t in ("L", "T") and type(got) in (list, tuple) and len(got) == len(refstruct[1]):
        for i, (r, g) in enumerate(zip(refstruct[1], got)):
            m = identity_check(r, g, f"{path}[{i}]")
            if m:
                return m
    if t == "D" and type(got) is dict and len(got) == len(refstruct[1]):
        for (rk, rv), (gk, gv) in zip(refstruct[1], got.items()):
            m = identity_check(rv, gv, f"{path}[{gk!r}]")
            if m:
                return m
    return None


def check_case(ctx, case, record=True):
    spec = case["spec"]
    neg = case.get("neg")
    if record:
        nt = nontrivial(case["spec"])
        cl = [f"mode:{r['sched'].get('mode')}" for r in case["runs"]]
        for f, name in ((_has_opaque, "opaque"), ):
            if any(f(a) for nd in case["spec"]["nodes"] for a in specs.node_args(nd)):
                cl.append(name)
        if any(nd["k"] == "unpack" for nd in case["spec"]["nodes"]):
            cl.append("unpack")
        if neg:
            cl.append("neg_unpack")
        uses = _slot_uses(case["spec"])
        if uses:
            cl.append("shared_container")
        if any(len(v) >= 2 and len({repr(x) for x in v}) >= 2 for v in uses.values()):
            cl.append("shared_container_mutated_between_uses")
        out_spec = case["spec"].get("output")
        cl.append("output:none" if out_spec is None else "output:node" if ("n" in out_spec or "u" in out_spec)
                  else "output:const" if "c" in out_spec else "output:struct")
        ctx.case(case, nt, cl)
    results = []
    for ri, r in enumerate(case["runs"]):
        sc = r["sched"]
        try:
            w = world.World(spec, registry=False, pause=harness.pause_for(sc))
        except world.BuildMismatch as e:
            ctx.violation(case, str(e))
        expect_fail = False
        if neg:
            # rebuild that unpack with a wrong length through the public API
            expect_fail = _apply_neg(w, neg)
        out = harness.execute(lambda: w.run(r["cfg"]), sc, trace=(ri == 0))
        tag = f"[run {ri}: {r['cfg']} {sc.get('mode')}] "
        if out.verdict or out.uncaught:
            ctx.violation(case, tag + f"scheduler verdict {out.verdict} {out.verdict_info} uncaught={out.uncaught!r}")
        ref = refmodel.Ref(w, registry=False)
        if expect_fail:
            import uberjob
            if out.status == "ok":
                ctx.violation(case, tag + f"unpack with wrong length {neg} did not fail; run returned {out.value!r}")
            if not isinstance(out.value, uberjob.CallError) or not isinstance(out.value.__cause__, ValueError):
                ctx.violation(case, tag + f"unpack with wrong length raised {out.value!r} / cause {out.value.__cause__!r}, expected CallError from ValueError")
            continue
        if out.status != "ok":
            ctx.violation(case, tag + f"run raised {type(out.value).__name__}: {out.value} (cause: {getattr(out.value, '__cause__', None)!r})")
        exp = ref.eval(w.out_ref) if w.out_ref is not None else None
        d = vdiff(exp, out.value)
        if d:
            ctx.violation(case, tag + f"result differs from direct evaluation: {d}; expected {exp!r}, got {out.value!r}")
        # arguments observed inside the call functions
        for i, (args, kwitems) in w.received.items():
            argrefs, kwrefs = w.argrefs[i]
            eargs = [ref.eval(x) for x in argrefs]
            ekw = [(n, ref.eval(x)) for n, x in kwrefs]
            d = vdiff(tuple(eargs), tuple(args))
            if d:
                ctx.violation(case, tag + f"call {i} received positional arguments {args!r}, expected {eargs!r}: {d}")
            if [k for k, _ in kwitems] != [k for k, _ in ekw]:
                ctx.violation(case, tag + f"call {i} received keyword order {[k for k, _ in kwitems]}, expected {[k for k, _ in ekw]}")
            d = vdiff(tuple(v for _, v in ekw), tuple(v for _, v in kwitems))
            if d:
                ctx.violation(case, tag + f"call {i} received keyword arguments {kwitems!r}, expected {ekw!r}: {d}")
            for j, (rs, g) in enumerate(zip(argrefs, args)):
                m = identity_check(rs, g, f"call{i}.args[{j}]")
                if m:
                    ctx.violation(case, tag + m)
            for (n, rs), (_, g) in zip(kwrefs, kwitems):
                m = identity_check(rs, g, f"call{i}.kwargs[{n}]")
                if m:
                    ctx.violation(case, tag + m)
        need = refmodel.needed(spec, output=spec.get("output"), registry=False)["exec"]
        if set(w.received) != need:
            ctx.violation(case, tag + f"calls executed {sorted(w.received)} but direct evaluation needs {sorted(need)}")
        results.append(out.value)


def _apply_neg(w, neg):
    """Add an unpack of the same iterable with a wrong declared length (>= 1) through the public
    API and make the run's output its first element: the run must fail."""
    i, delta = neg
    nd = w.spec["nodes"][i]
    n = nd["n"] + delta
    if n < 1:
        n = nd["n"] + 1
    o, _ = w.materialize(nd["of"])
    bad = w.plan.unpack(o, n)
    w.run = lambda cfg=None, **kw: _run_with(w, cfg, bad[0])
    return True


def _run_with(w, cfg, node):
    import uberjob
    kwargs = dict(progress=None, output=[node], max_workers=cfg.get("workers"))
    if cfg.get("scheduler"):
        kwargs["scheduler"] = cfg["scheduler"]
    w.out_ref = None
    with world.seeded_random(cfg.get("rseed", 0)):
        try:
            return "ok", uberjob.run(w.plan, **kwargs)
        except BaseException as e:
            return "err", e


@st.composite
def big_cases(draw):
    return {"fam": "big", "shape": draw(st.sampled_from(["chain", "chain", "fan", "tree", "ladder"])),
            "n": draw(st.integers(1000, 5000)), "workers": draw(st.sampled_from([1, 2, 4, 8])),
            "scheduler": draw(st.sampled_from(["default", "random", None])),
            "output": draw(st.sampled_from(["last", "all", "mid"]))}


def check_big_case(ctx, case, record=True):
    """Plans of a few thousand calls (nothing in uberjob bounds the size of a plan): a long chain, a wide fan-in, a
    binary reduction tree, a two-rail ladder.  The output must equal plain evaluation."""
    import operator

    import uberjob
    n, shape = case["n"], case["shape"]
    if record:
        ctx.case(case, True, ["fam:big", "big:" + shape, f"big_nodes:{n // 1000}k"])
    plan = uberjob.Plan()
    if shape == "chain":
        x, v = plan.call(int, 0), 0
        nodes, vals = [x], [0]
        for i in range(n):
            x, v = plan.call(operator.add, x, i % 7), v + i % 7
            nodes.append(x)
            vals.append(v)
    elif shape == "fan":
        leaves = [plan.call(operator.mul, i, 3) for i in range(n)]
        nodes = leaves + [plan.call(sum, leaves)]
        vals = [i * 3 for i in range(n)] + [sum(i * 3 for i in range(n))]
    elif shape == "tree":
        nodes = [plan.call(int, i) for i in range(n)]
        vals = list(range(n))
        lo = 0
        while len(nodes) - lo > 1:
            hi = len(nodes)
            for a in range(lo, hi - 1, 2):
                nodes.append(plan.call(operator.add, nodes[a], nodes[a + 1]))
                vals.append(vals[a] + vals[a + 1])
            if (hi - lo) % 2:
                nodes.append(nodes[hi - 1])
                vals.append(vals[hi - 1])
            lo = hi
    else:  # ladder: two chains with rungs
        a, b, va, vb = plan.call(int, 1), plan.call(int, 2), 1, 2
        nodes, vals = [a, b], [1, 2]
        for i in range(n // 2):
            a, b, va, vb = plan.call(operator.add, a, b), plan.call(operator.sub, b, a), va + vb, vb - va
            nodes += [a, b]
            vals += [va, vb]
    if case["output"] == "last":
        out, exp = nodes[-1], vals[-1]
    elif case["output"] == "mid":
        out, exp = nodes[len(nodes) // 2], vals[len(nodes) // 2]
    else:
        out, exp = [nodes[-1], nodes[len(nodes) // 2], nodes[0]], [vals[-1], vals[len(nodes) // 2], vals[0]]
    kw = {"scheduler": case["scheduler"]} if case["scheduler"] else {}
    try:
        got = uberjob.run(plan, output=out, progress=None, max_workers=case["workers"], **kw)
    except Exception as e:
        ctx.violation(case, f"a {shape} plan of {len(nodes)} calls: run raised {e!r:.300} (cause {e.__cause__!r:.200})")
    if got != exp:
        ctx.violation(case, f"a {shape} plan of {len(nodes)} calls returned {got!r:.200}, plain evaluation gives {exp!r:.200}")


def run_shard(ctx):
    max_nodes = 8 if ctx.tier == "quick" else 12

    @given(big_cases())
    def test_big(case):
        runner.guarded(ctx, check_big_case, case)

    runner.drive(ctx, test_big, ctx.n(24, 480))

    @given(cases(max_nodes))
    def test(case):
        runner.guarded(ctx, check_case, case)

    runner.drive(ctx, test, ctx.n(9600, 100000))


def replay(ctx, case):
    if case.get("fam") == "big":
        try:
            check_big_case(ctx, case, record=False)
        except runner.Violation as v:
            return v.msg
        return None
    case = common.decode(case)
    for _ in range(3):
        try:
            check_case(ctx, case, record=False)
        except runner.Violation as v:
            return v.msg
    return None
