"""C09 - rebuilt stored values are written, then read back, before downstream use."""
from hypothesis import given

from checks import common, regcommon
from vlib import harness, refmodel, runner, specs, world
from vlib.specs import vdiff

ID = "C09"
LEVEL = "exploration"
SHARDS = {"quick": 8, "thorough": 16}
LEVEL_TEXT = (
    "Generated registry worlds with normalising stores (read() returns something distinguishable from what was "
    "written), generated histories producing stale interior nodes / stale dependent sources, run under harness-owned "
    "schedules (deterministic scheduler with scheduling points inside every call and store operation, opcode-level "
    "preemption in the engine) and real threads. Oracle: order invariants over the event log (write end < read start < "
    "consumer start; write end < plain dependent start; downstream stored values written later; stale dependent source "
    "read after its writer ended) plus value checks of every argument a consumer received and of the output against the "
    "read-back based reference. Bounded; presence not absence."
)
LEVEL_NOTE = "Trusts vlib/detsched.py and the reference interpreter; event log totally ordered under the deterministic scheduler, appended under a lock in real-thread mode."
TECHNIQUE = "property-based testing with harness-owned schedules: event-order invariants + read-back value oracle over generated histories"
RULE = (
    "Hypothesis draws a registry world + history (deletes/updates/fresh_time make interior stored nodes and dependent "
    "sources stale) and a schedule per run. For every fault-free run, for each rebuilt X: wr_end(X) < rd_start(X); "
    "rd_end(X) < start(c) for each executed argument consumer c; wr_end(X) < start(d) for each executed plain dependent; "
    "every registered non-source descendant of X is written in the same run after X; a stale dependent source is read "
    "only after its writer ended; consumers' received arguments and the output equal the reference built from R(.) "
    "read-backs. Non-trivial = >= 1 rebuilt value with >= 1 executed consumer and >= 2 workers. Distinct = SHA-1 of (case, run)."
)
ASSUMPTIONS = ["normalising in-memory stores", "scheduling points inside store operations and call bodies"]


def check_run(ctx, case, n, op, w, out, ood, need, record):
    spec = case["spec"]
    nodes = spec["nodes"]
    tag = f"[op {n}: {regcommon.describe(op)}] "
    pos = {}
    for seq, kind, idx, extra, _ in w.events:
        pos.setdefault((kind, idx), seq)
    ent = refmodel.entries(spec)
    rebuilt = [i for i in need["writes"]]
    consumers_seen = False

    def before(a, b, what):
        if a in pos and b in pos and not pos[a] < pos[b]:
            ctx.violation(case, tag + f"{what}: event {a} (#{pos[a]}) is not before {b} (#{pos[b]}); "
                                      f"log={[(e[1], e[2]) for e in w.events]}")

    for x in ent:
        is_rebuilt = x in need["writes"]
        if is_rebuilt:
            if ("wr_end", x) not in pos:
                ctx.violation(case, tag + f"out-of-date stored node {x} was not written")
            before(("wr_end", x), ("rd_start", x), f"stored node {x} must be written before it is read back")
        for c in need["exec"]:
            nd = nodes[c]
            if x in set(specs.arg_preds(nd)) and ("start", c) in pos:
                if ("rd_end", x) not in pos:
                    ctx.violation(case, tag + f"call {c} consumes registered node {x} but its store was never read")
                before(("rd_end", x), ("start", c), f"consumer {c} of stored node {x} must start after the read-back")
                if is_rebuilt:
                    consumers_seen = True
            if is_rebuilt and x in set(specs.dep_preds(nd)) and ("start", c) in pos:
                before(("wr_end", x), ("start", c), f"plain dependent {c} of rebuilt node {x} must start after the write")
                consumers_seen = True
        if is_rebuilt:
            for y in ent:
                if y != x and nodes[y]["k"] != "src" and x in specs.strict_ancestors(spec, y):
                    if ("wr_start", y) not in pos:
                        ctx.violation(case, tag + f"stored node {y} is downstream of rebuilt {x} but was not rebuilt in the same run")
                    before(("wr_end", x), ("wr_start", y), f"downstream stored node {y} must be written after upstream {x}")
        if specs.src_kind(nodes[x]) == "dep" and x in ood and ("rd_start", x) in pos:
            wtr = nodes[x]["deps"][0]["n"]
            if ("end", wtr) not in pos:
                ctx.violation(case, tag + f"out-of-date dependent source {x} was read but its writer {wtr} did not run")
            before(("end", wtr), ("rd_start", x), f"out-of-date dependent source {x} must be read after its writer {wtr}")
        if nodes[x]["k"] == "src" and x in ood and ("rd_start", x) in pos:
            # every node the out-of-date source depends on (writer, aliased stored node, extra dependencies)
            for p in set(specs.dep_preds(nodes[x])):
                if p in need["writes"]:
                    before(("wr_end", p), ("rd_start", x),
                           f"out-of-date source {x} depends on rebuilt stored node {p} and must be read after its write")
                elif p not in ent and nodes[p]["k"] == "call" and p in need["exec"]:
                    before(("end", p), ("rd_start", x),
                           f"out-of-date source {x} depends on call {p} and must be read after it ended")
    # values
    ref = refmodel.Ref(w, registry=True)
    for i, (args, kwitems) in w.received.items():
        argrefs, kwrefs = w.argrefs[i]
        eargs = tuple(ref.eval(r) for r in argrefs)
        ekw = tuple((k, ref.eval(r)) for k, r in kwrefs)
        d = vdiff(eargs, tuple(args)) or vdiff(ekw, tuple(kwitems))
        if d:
            ctx.violation(case, tag + f"call {i} received {args!r} {kwitems!r}; with read-back values it must receive {eargs!r} {ekw!r}: {d}")
    msg = regcommon.check_from_scratch(w, out, op, tag)
    if msg:
        ctx.violation(case, msg)
    if record:
        workers = op["cfg"]["workers"]
        nt = bool(rebuilt) and consumers_seen and workers >= 2
        ctx.case({"case": case, "run": n}, nt,
                 [f"mode:{op['sched'].get('mode')}", "rebuilt" if rebuilt else "nothing_rebuilt",
                  "rebuilt_with_consumer" if consumers_seen else "no_consumer",
                  "stale_dep_source" if any(nodes[x]["k"] == "src" and specs.dep_preds(nodes[x]) and x in ood for x in ent) else "no_stale_dep_source"])


def check_case(ctx, case, record=True):
    spec = case["spec"]
    if record:
        ctx.count(*["world:" + c for c in regcommon.spec_classes(spec)])
    w = world.World(spec, registry=True)
    w.init_sources()
    for n, op in enumerate(case["ops"]):
        if op["op"] == "update":
            w.set_source(op["src"])
            continue
        if op["op"] == "delete":
            w.delete(op["entry"])
            continue
        ft = regcommon.fresh_tick(w, op)
        ood = refmodel.out_of_date(spec, regcommon.times_of(w), ft)
        need = refmodel.needed(spec, ood, op.get("output"), registry=True)
        out, _ = regcommon.run_op(w, op, trace=True)
        case2 = case
        if out.verdict or out.uncaught:
            ctx.violation(case2, f"[op {n}] scheduler verdict {out.verdict} {out.verdict_info}; uncaught={out.uncaught!r}")
        if op.get("fault") or any(e[1] in ("fault", "dead") for e in w.events):
            continue
        if out.status != "ok":
            ctx.violation(case2, f"[op {n}] fault-free run failed: {out.value!r} cause {getattr(out.value, '__cause__', None)!r}")
        check_run(ctx, case, n, op, w, out, ood, need, record)


def run_shard(ctx):
    max_nodes, max_ops = (8, 4) if ctx.tier == "quick" else (12, 7)

    @given(regcommon.reg_cases(max_nodes=max_nodes, max_ops=max_ops, det_share=60, disturb_last=True, faults=False, xdeps=True, alias=True, sread=True))
    def test(case):
        runner.guarded(ctx, check_case, case)

    runner.drive(ctx, test, ctx.n(2400, 40000))


def replay(ctx, case):
    case = common.decode(case)
    if "case" in case and "run" in case:
        case = case["case"]
    for _ in range(10):
        try:
            check_case(ctx, case, record=False)
        except runner.Violation as v:
            return v.msg
    return None
