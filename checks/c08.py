"""C08 - a run cut short at any point leaves stores that the next run repairs correctly."""
import random

from hypothesis import given, strategies as st

from checks import common, regcommon
from vlib import harness, refmodel, runner, specs, world
from vlib.specs import W, vdiff

ID = "C08"
LEVEL = "fault_enumeration"
SHARDS = {"quick": 8, "thorough": 16}
LEVEL_TEXT = (
    "Fault enumeration: for each generated (registry world, reachable store state, run configuration, schedule) the run is "
    "first executed on a cloned world to learn its operation stream (call starts, store reads, store writes, "
    "modified-time queries) of length N; it is then re-executed on a fresh clone for cut positions k in [0, N) x mode in "
    "{exception before the effect, exception after the effect, BaseException, process death = every later operation "
    "fails} (all cuts in the thorough tier, a seeded sample of <= 24 per case in the quick tier). Oracle per cut: stores "
    "the staleness model calls up to date hold their from-scratch values; the follow-up run succeeds and satisfies C03's "
    "postcondition; stores whose write completed before the cut are not written again. A file-backed variant kills a "
    "forked child with os._exit at every file operation of runs over Json/Pickle file stores. Bounded; presence not absence."
)
LEVEL_NOTE = (
    "In-memory logical-clock stores for the main enumeration; process death is modelled as 'every operation from index k on "
    "raises a BaseException' (in-memory) and as os._exit in a forked child (file-backed); power loss / fsync durability is "
    "outside the statement."
)
TECHNIQUE = "fault enumeration over the generated run's operation stream (every cut x 4 modes) + follow-up-run oracle; fork/os._exit for file-backed stores"
RULE = (
    "Hypothesis draws a registry world, a history prefix, a final run (output, workers, scheduler, fresh_time, max_errors, "
    "schedule: real threads or deterministic scheduler). The final run's operation stream is enumerated as described in "
    "LEVEL_TEXT. Non-trivial = a cut with 0 < k < N-1 that has >= 1 store write on each side in the uncut run. Distinct = "
    "SHA-1 of (case, k, mode)."
)
ASSUMPTIONS = ["nothing upstream changes between the cut run and the follow-up run; same fresh_time"]

MODES = ["before", "after", "base", "dead"]


@st.composite
def cases(draw, max_nodes, max_ops):
    base = draw(regcommon.reg_cases(max_nodes=max_nodes, max_ops=max_ops, faults=False, det_share=25, disturb_last=True,
                                  alias=True, sread=True))
    base["cut_seed"] = draw(st.integers(0, 2 ** 16))
    base["ops"][-1]["cfg"]["max_errors"] = draw(st.sampled_from([0, 0, None, 2]))
    return base


def prepare(case):
    spec = case["spec"]
    a = world.World(spec, registry=True)
    a.init_sources()
    for op in case["ops"][:-1]:
        if op["op"] == "update":
            a.set_source(op["src"])
        elif op["op"] == "delete":
            a.delete(op["entry"])
        else:
            regcommon.run_op(a, op)
    return a.snapshot()


def clone(spec, snap):
    w = world.World(spec, registry=True)
    w.restore(snap)
    return w


def up_to_date_values_ok(w, ft):
    spec = w.spec
    ood = refmodel.out_of_date(spec, regcommon.times_of(w), ft)
    ref = refmodel.Ref(w, registry=True)
    for i in refmodel.entries(spec) - ood:
        nd = spec["nodes"][i]
        if specs.src_kind(nd) in ("pure", "alias"):
            continue
        try:
            exp = W(ref.raw(nd["deps"][0]["n"])) if nd["k"] == "src" else ref.raw(i)
        except refmodel.RefFailure:
            continue
        d = vdiff(exp, w.stores[i].value)
        if d:
            return f"store {i} is considered up to date (time {w.stores[i].time}) but holds {w.stores[i].value!r}; from-scratch value {exp!r}: {d}"
    return None


def check_cut(ctx, case, snap, op, k, mode, base_writes, n_ops, record):
    spec = case["spec"]
    w = clone(spec, snap)
    op_cut = dict(op, fault={"k": k, "mode": mode})
    ft = regcommon.fresh_tick(w, op)
    out, _ = regcommon.run_op(w, op_cut, trace=True)
    tag = f"[cut k={k}/{n_ops} mode={mode} in {regcommon.describe(op)}] "
    key_case = {"case": case, "cut": k, "mode": mode}
    if out.verdict or out.uncaught:
        # a 'dead' process: exceptions escaping worker threads are expected (BaseException everywhere)
        if out.verdict or mode != "dead":
            ctx.violation(key_case, tag + f"scheduler verdict {out.verdict} {out.verdict_info}; uncaught {out.uncaught!r}")
    hit = [e for e in w.events if e[1] in ("fault", "dead")]
    done_writes = {e[2] for e in w.events if e[1] == "wr_end"}
    before = sum(1 for x in base_writes if x < k)
    after = sum(1 for x in base_writes if x > k)
    if record:
        ctx.case(key_case, 0 < k < n_ops - 1 and before >= 1 and after >= 1,
                 [f"mode:{mode}", f"sched:{op['sched'].get('mode')}", "cut_hit" if hit else "cut_not_reached",
                  f"status:{out.status}"])
    msg = up_to_date_values_ok(w, ft)
    if msg:
        ctx.violation(key_case, tag + "after the cut: " + msg)
    # follow-up run: same configuration, no fault
    op2 = {k2: v for k2, v in op.items() if k2 != "fault"}
    w.reset_log()
    cfg = dict(op["cfg"])
    cfg["max_errors"] = 0
    if ft is not None:
        cfg["fresh"] = ft
    st_, val = w.run(cfg, output=op.get("output"))
    if st_ != "ok":
        ctx.violation(key_case, tag + f"the follow-up run failed: {val!r} cause {getattr(val, '__cause__', None)!r}")

    class O:
        value = val
    msg = regcommon.check_from_scratch(w, O, op, tag + "follow-up run: ")
    if msg:
        ctx.violation(key_case, msg)
    again = {e[2] for e in w.events if e[1] == "wr_start"} & done_writes
    if again:
        ctx.violation(key_case, tag + f"stores {sorted(again)} were completely written before the cut but the follow-up run wrote them again")


def check_case(ctx, case, record=True, only=None):
    spec = case["spec"]
    snap = prepare(case)
    op = case["ops"][-1]
    # baseline: learn the operation stream
    w0 = clone(spec, snap)
    out0, _ = regcommon.run_op(w0, op)
    if out0.status != "ok":
        ctx.violation(case, f"baseline run failed: {out0.value!r} cause {getattr(out0.value, '__cause__', None)!r}")
    n_ops = w0.opcount
    # operation indices of store writes in the baseline stream
    base_writes = []
    idx = -1
    for e in w0.events:
        if e[1] in ("start", "rd_start", "wr_start", "mt_start"):
            idx += 1
            if e[1] == "wr_start":
                base_writes.append(idx)
    if only is not None:
        cuts = [only]
    else:
        cuts = [(k, m) for k in range(n_ops) for m in MODES]
        limit = 24 if ctx.tier == "quick" else 4000
        if len(cuts) > limit:
            cuts = random.Random(case["cut_seed"]).sample(cuts, limit)
    if record:
        ctx.count("cases")
        ctx.count("op_stream_len", k=n_ops)
        ctx.count(*["world:" + c for c in regcommon.spec_classes(spec)])
    for k, mode in cuts:
        check_cut(ctx, case, snap, op, k, mode, base_writes, n_ops, record)


def run_shard(ctx):
    max_nodes, max_ops = (8, 3) if ctx.tier == "quick" else (12, 5)

    @given(cases(max_nodes, max_ops))
    def test(case):
        runner.guarded(ctx, check_case, case)

    runner.drive(ctx, test, ctx.n(800, 8000))
    from checks import c08_files
    c08_files.run(ctx)


def replay(ctx, case):
    case = common.decode(case)
    if case.get("kind") == "files":
        from checks import c08_files
        return c08_files.replay(ctx, case)
    only = None
    if "cut" in case:
        only = (case["cut"], case["mode"])
        case = case["case"]
    for _ in range(6):
        try:
            check_case(ctx, case, record=False, only=only)
        except runner.Violation as v:
            return v.msg
    return None
