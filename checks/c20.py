"""C20 - bundled progress displays render every reachable state, ending with the final one."""
import collections
import contextlib
import html
import io
import os
import pathlib
import math
import re

from hypothesis import given, strategies as st

from vlib import detsched, harness, runner
from vlib.util import uncanon

ID = "C20"
LEVEL = "exploration"
SHARDS = {"quick": 8, "thorough": 16}
LEVEL_TEXT = (
    "Generated histories: legal notification sequences (C15's grammar: totals first, running <= total, every running "
    "completed or failed once; 'stale' then 'run') over generated scope tuples of merely hashable/equatable values - ints, "
    "strs, None, bools, floats incl. NaN, bytes, tuples, frozensets, complex numbers, plain object() instances, instances "
    "of a class defining only __hash__/__eq__, mixed types and lengths - with render points and fake-clock advances "
    "interleaved anywhere, for the console, HTML and IPython observers. Two drivers: direct rendering under the observer's "
    "lock, and the observer's real update thread run under the deterministic scheduler (Event.wait timeouts fire at the "
    "schedule's discretion; an exception in that thread is captured, not swallowed). Oracle: nothing raises; the last "
    "emitted rendering shows the model's final counts for every scope; attributed elapsed time sums to the fake time with "
    ">= 1 call running. Bounded; presence not absence."
)
LEVEL_NOTE = (
    "Fake clock replaces the module-global `time` of _simple_progress_observer; the elapsed-time sum is read from the "
    "observer's per-scope state (the displays print it truncated to seconds); IPython widgets are inspected through the "
    "observer's widget cache."
)
TECHNIQUE = "model-based property testing over generated legal notification histories with fake clock; rendering parsed and compared with the model"
RULE = (
    "(also: the HTML display writing to a str/pathlib path instead of a callable) Hypothesis draws 1..5 scope tuples over the value kinds above (incl. naive/aware datetimes and tuples of mixed types: comparable with themselves only), optionally a burst of 120-140 failures/completions in one scope, a legal notification history with interleaved "
    "render/tick operations, an observer kind (console/html/ipython) and a driver (direct / update thread under the "
    "deterministic scheduler). Non-trivial = >= 2 scopes of which two are same-type-unorderable or of mixed type, and >= 1 "
    "render between notifications. Distinct = SHA-1 of the case."
)
ASSUMPTIONS = ["Plan.scope permits any hashable and equatable values (its docstring)"]


class EqHash:
    def __init__(self, k):
        self.k = k

    def __hash__(self):
        return hash(("EqHash", self.k))

    def __eq__(self, other):
        return type(other) is EqHash and other.k == self.k

    def __repr__(self):
        return f"EqHash({self.k})"


VALUES = st.one_of(
    st.tuples(st.just("int"), st.integers(-2, 3)).map(list),
    st.tuples(st.just("str"), st.sampled_from(["a", "b", "x.y", "<b>", "1", ""])).map(list),
    st.just(["none"]),
    st.tuples(st.just("bool"), st.booleans()).map(list),
    st.tuples(st.just("float"), st.sampled_from(["nan", "1.5", "-0.0", "inf"])).map(list),
    st.tuples(st.just("bytes"), st.sampled_from(["", "6162", "00ff"])).map(list),
    st.tuples(st.just("tuple"), st.lists(st.integers(0, 2), max_size=2)).map(list),
    st.tuples(st.just("fset"), st.lists(st.integers(0, 2), max_size=2)).map(list),
    st.tuples(st.just("complex"), st.sampled_from([[0, 1], [0, 2], [1, 0]])).map(list),
    st.tuples(st.just("obj"), st.integers(0, 2)).map(list),
    st.tuples(st.just("eqhash"), st.integers(0, 2)).map(list),
    # values each comparable with itself but not necessarily with another value of the same type
    st.tuples(st.just("dt"), st.sampled_from(["naive", "aware"]), st.integers(1, 3)).map(list),
    st.tuples(st.just("mtuple"), st.lists(st.one_of(
        st.tuples(st.just("int"), st.integers(0, 2)).map(list),
        st.tuples(st.just("str"), st.sampled_from(["m", "b"])).map(list),
        st.just(["none"])), min_size=1, max_size=2)).map(list),
)


def materialize(v, pool):
    k = v[0]
    if k == "int":
        return v[1]
    if k == "str":
        return v[1]
    if k == "none":
        return None
    if k == "bool":
        return v[1]
    if k == "float":
        return float(v[1])
    if k == "bytes":
        return bytes.fromhex(v[1])
    if k == "tuple":
        return tuple(v[1])
    if k == "fset":
        return frozenset(v[1])
    if k == "complex":
        return complex(*v[1])
    if k == "obj":
        return pool.setdefault(("obj", v[1]), object())
    if k == "dt":
        import datetime as dt
        return dt.datetime(2020, 1, v[2], tzinfo=dt.timezone.utc if v[1] == "aware" else None)
    if k == "mtuple":
        return tuple(materialize(x, pool) for x in v[1])
    return EqHash(v[1])


@st.composite
def cases(draw):
    nscopes = draw(st.integers(1, 5))
    scopes = []
    base = draw(st.lists(VALUES, max_size=2))
    for _ in range(nscopes):
        if draw(st.booleans()):
            sc = list(base) + draw(st.lists(VALUES, min_size=1, max_size=2))
        else:
            sc = draw(st.lists(VALUES, max_size=3))
        if sc not in scopes:
            scopes.append(sc)
    ops = []
    for section in ("stale", "run"):
        if section == "stale" and draw(st.sampled_from([True, False])):
            continue
        totals = {}
        for si in range(len(scopes)):
            if draw(st.sampled_from([True, True, False])):
                amt = draw(st.integers(1, 3))
                totals[si] = amt
                ops.append(["total", section, si, amt])
                if draw(st.sampled_from([True, False, False])):
                    ops.append(["render"])
        if section == "run" and draw(st.integers(0, 9)) == 0:
            # a scope with more failures (or completions) than any bounded buffer of the display holds
            si = draw(st.integers(0, len(scopes) - 1))
            n = draw(st.integers(120, 140))
            ops.append(["total", section, si, n])
            ops.append(["burst", section, si, n, draw(st.sampled_from(["failed", "failed", "completed"]))])
            if draw(st.booleans()):
                ops.append(["render"])
        remaining = dict(totals)
        running = collections.Counter()
        stop_early = draw(st.sampled_from([False, False, True]))
        budget = draw(st.integers(0, 12))
        while (any(remaining.values()) or any(running.values())) and budget > 0:
            budget -= 1
            choices = []
            for si, r in remaining.items():
                if r > 0:
                    choices.append(("running", si))
            for si, r in running.items():
                if r > 0:
                    choices += [("completed", si), ("completed", si), ("failed", si)]
            choices += [("tick", None), ("render", None)]
            kind, si = draw(st.sampled_from(choices))
            if kind == "running":
                remaining[si] -= 1
                running[si] += 1
                ops.append(["running", section, si])
            elif kind in ("completed", "failed"):
                running[si] -= 1
                ops.append([kind, section, si])
            elif kind == "tick":
                ops.append(["tick", draw(st.sampled_from([0.5, 1, 7, 61, 3700]))])
            else:
                ops.append(["render"])
        # everything still running finishes (nothing is running when run returns)
        for si, r in running.items():
            for _ in range(r):
                if draw(st.booleans()):
                    ops.append(["tick", 2])
                ops.append([draw(st.sampled_from(["completed", "completed", "failed"])), section, si])
        if stop_early and section == "stale":
            break
    return {"scopes": scopes, "ops": ops, "observer": draw(st.sampled_from(["console", "html", "ipython"])),
            "driver": draw(st.sampled_from(["direct", "direct", "thread"])),
            "sched": draw(harness.schedules(det_only=True)),
            "intervals": draw(st.sampled_from([[0, 0, 0], [3, 30, 300], [1, 1, 10], [0, 5, 5]])),
            "html_to": draw(st.sampled_from(["callable", "callable", "path", "pathlib"]))}


def progress_string(c, f, r, t):
    all_done = c + f == t
    started = c + f + r > 0
    s = f"{c} / {t}" if (all_done or not started) else f"({c} + {r}) / {t}"
    if f:
        s += f", {f} failed"
    return s


def scope_string(scope):
    return ", ".join(str(v) for v in scope)


class Model:
    def __init__(self, scopes):
        self.scopes = scopes
        self.state = {}  # (section, scope index) -> [completed, failed, running, total]
        self.busy_time = 0.0
        self.running = 0

    def apply(self, op):
        k = op[0]
        if k == "tick":
            if self.running:
                self.busy_time += op[1]
            return
        if k == "render":
            return
        if k == "burst":
            s = self.state.setdefault((op[1], self.scopes[op[2]]), [0, 0, 0, 0])
            s[0 if op[4] == "completed" else 1] += op[3]
            return
        key = (op[1], self.scopes[op[2]])  # equal scope tuples are one scope (e.g. (True,) == (1,))
        s = self.state.setdefault(key, [0, 0, 0, 0])
        if k == "total":
            s[3] += op[3]
        elif k == "running":
            s[2] += 1
            self.running += 1
        elif k == "completed":
            s[2] -= 1
            s[0] += 1
            self.running -= 1
        elif k == "failed":
            s[2] -= 1
            s[1] += 1
            self.running -= 1


class PathSink:
    """The HTML display writing to a report file (str or pathlib path) instead of a callable: the 'renderings' are
    whatever the file holds."""

    def __init__(self, as_pathlib):
        import tempfile
        self.dir = tempfile.mkdtemp(prefix="c20-")
        self.path = os.path.join(self.dir, "progress.html")
        self.arg = pathlib.Path(self.path) if as_pathlib else self.path

    def __bool__(self):
        return os.path.exists(self.path)

    def __getitem__(self, i):
        with open(self.path, "rb") as f:
            return f.read()

    def cleanup(self):
        import shutil
        shutil.rmtree(self.dir, ignore_errors=True)


def make_observer(kind, intervals, sink):
    from uberjob.progress._console_progress_observer import ConsoleProgressObserver
    from uberjob.progress._html_progress_observer import HtmlProgressObserver
    from uberjob.progress._ipython_progress_observer import IPythonProgressObserver

    kw = dict(initial_update_delay=intervals[0], min_update_interval=intervals[1], max_update_interval=intervals[2])
    if kind == "console":
        return ConsoleProgressObserver(**kw)
    if kind == "html":
        return HtmlProgressObserver(sink.arg if isinstance(sink, PathSink) else sink.append, **kw)
    return IPythonProgressObserver(**kw)


def unorderable(scopes):
    """Two scopes whose first differing position holds same-type values without an ordering, or mixed types."""
    kinds_unord = {"complex", "obj", "eqhash", "dt", "mtuple"}
    mixed = False
    unord = False
    for i, a in enumerate(scopes):
        for b in scopes[i + 1:]:
            for x, y in zip(a, b):
                if x == y:
                    continue
                if x[0] != y[0]:
                    mixed = True
                elif x[0] in kinds_unord:
                    unord = True
                break
    return unord, mixed


def check_case(ctx, case, record=True):
    import uberjob.progress._simple_progress_observer as spo

    scopes_desc = case["scopes"]
    pool = {}
    scopes = [tuple(materialize(v, pool) for v in sc) for sc in scopes_desc]
    unord, mixed = unorderable(scopes_desc)
    # The "direct" driver renders at chosen points through the observers' internal render step; if an
    # implementation no longer has it, the same history is driven through the real update thread instead.
    probe = make_observer(case["observer"], case["intervals"], [])
    driver = case["driver"]
    if driver == "direct" and not all(hasattr(probe, a) for a in ("_do_render", "_lock", "_output")):
        driver = "thread"
        if record:
            ctx.count("direct_driver_unavailable:driven_through_update_thread")
    del probe
    renders_between = any(op[0] == "render" for op in case["ops"][:-1]) or driver == "thread"
    if record:
        ctx.case(case, len(scopes) >= 2 and (unord or mixed) and renders_between,
                 [f"observer:{case['observer']}", f"driver:{case['driver']}"] + (["unorderable"] if unord else [])
                 + ([f"html_to:{case.get('html_to', 'callable')}"] if case["observer"] == "html" else [])
                 + (["mixed_types"] if mixed else []) + (["burst>=120"] if any(op[0] == "burst" for op in case["ops"]) else []))
    clock = detsched.FakeTime(1000.0)
    sink = []
    if case["observer"] == "html" and case.get("html_to") in ("path", "pathlib"):
        sink = PathSink(case["html_to"] == "pathlib")
        try:
            return _check_case_body(ctx, case, record, scopes, driver, clock, sink)
        finally:
            sink.cleanup()
    return _check_case_body(ctx, case, record, scopes, driver, clock, sink)


def _check_case_body(ctx, case, record, scopes, driver, clock, sink):
    import uberjob.progress._simple_progress_observer as spo

    model = Model(scopes)
    stdout = io.StringIO()
    obs_box = {}
    errors = []

    def emit(obs, op):
        k = op[0]
        if k == "tick":
            clock.now += op[1]
        elif k == "render":
            if driver == "direct":
                with obs._lock:
                    out = obs._do_render()
                if out is not None:
                    obs._output(out)
            else:
                detsched.pause()
        elif k == "burst":
            scope = scopes[op[2]]
            for j in range(op[3]):
                obs.increment_running(section=op[1], scope=scope)
                if op[4] == "completed":
                    obs.increment_completed(section=op[1], scope=scope)
                else:
                    obs.increment_failed(section=op[1], scope=scope, exception=ValueError(f"failure {j}"))
        else:
            scope = scopes[op[2]]
            if k == "total":
                obs.increment_total(section=op[1], scope=scope, amount=op[3])
            elif k == "running":
                obs.increment_running(section=op[1], scope=scope)
            elif k == "completed":
                obs.increment_completed(section=op[1], scope=scope)
            else:
                try:
                    raise ValueError(f"failure in {scope_string(scope)}")
                except ValueError as e:
                    exc = e
                obs.increment_failed(section=op[1], scope=scope, exception=exc)
        model.apply(op)

    def body():
        obs = make_observer(case["observer"], case["intervals"], sink)
        obs_box["obs"] = obs
        if driver == "thread":
            obs.__enter__()
        try:
            for op in case["ops"]:
                emit(obs, op)
        finally:
            if driver == "thread":
                obs.__exit__(None, None, None)
            else:
                with obs._lock:
                    out = obs._do_render()
                if out is not None:
                    obs._output(out)
        return "ok", None

    old_time = spo.time
    spo.time = clock
    try:
        with contextlib.redirect_stdout(stdout):
            if driver == "thread":
                def thunk():
                    try:
                        return body()
                    except BaseException as e:
                        return "err", e
                # one in sixteen of these cases with opcode-level preemption inside the progress package: a rendering that is not
                # done under the observer's lock can then be interleaved with notifications at any bytecode
                import glob as _glob

                pfiles = sorted(_glob.glob(os.path.join(os.path.dirname(spo.__file__), "*.py")))
                traced = case["sched"].get("seed", 0) % 16 == 0
                out = harness.execute(thunk, case["sched"], trace=traced, modules=[spo], files=pfiles)
                if out.verdict:
                    ctx.violation(case, f"display update thread / observer deadlocked: {out.verdict} {out.verdict_info}")
                if out.uncaught:
                    name, e = out.uncaught[0]
                    ctx.violation(case, f"the display's update thread died with {type(e).__name__}: {e} - the display silently stops updating",
                                  key="unorderable-scope-sort" if isinstance(e, TypeError) and "not supported between" in str(e) else None)
                if out.status == "err":
                    e = out.value
                    ctx.violation(case, f"observer raised {type(e).__name__}: {e}",
                                  key="unorderable-scope-sort" if isinstance(e, TypeError) and "not supported between" in str(e) else None)
                if out.alive_after:
                    ctx.violation(case, f"observer threads alive after __exit__: {out.alive_after}")
            else:
                try:
                    body()
                except Exception as e:
                    ctx.violation(case, f"observer raised {type(e).__name__}: {e}",
                                  key="unorderable-scope-sort" if isinstance(e, TypeError) and "not supported between" in str(e) else None)
    finally:
        spo.time = old_time
    obs = obs_box["obs"]
    # final state expected by the model
    final = {}
    for (section, sc), (c, f, r, t) in model.state.items():
        final[(section, sc)] = (c, f, r, t)
    # elapsed attribution
    total_elapsed = 0.0
    try:
        for section, mapping in obs._state.section_scope_mapping.items():
            for sc, st_ in mapping.items():
                total_elapsed += st_.weighted_elapsed
    except AttributeError:
        # the per-scope elapsed times are read from the observer's state object; an implementation that keeps
        # them elsewhere is not judged on this clause (counted, so the evidence shows it)
        total_elapsed = None
        if record:
            ctx.count("elapsed_oracle_unavailable")
    if total_elapsed is not None and not math.isclose(total_elapsed, model.busy_time, rel_tol=1e-9, abs_tol=1e-6):
        ctx.violation(case, f"elapsed time attributed to scopes sums to {total_elapsed}, but calls were running for {model.busy_time} s of fake time")
    if not final:
        return
    kind = case["observer"]
    if kind == "console":
        check_console(ctx, case, stdout.getvalue(), final, scopes)
    elif kind == "html":
        if not sink:
            ctx.violation(case, "the HTML observer never emitted a rendering")
        check_html(ctx, case, sink[-1].decode(), final, scopes)
    else:
        check_ipython(ctx, case, obs, final, scopes)


def check_console(ctx, case, text, final, scopes):
    # last printed block per section
    blocks = {}
    current = None
    row = re.compile(r"^ +(.*?) \| +([0-9hms]+) \| (.*)$")
    for line in text.split("\n"):
        if line in ("stale:", "run:"):
            current = line[:-1]
            blocks[current] = []
        elif line.startswith("uberjob, elapsed") or line.startswith("new exceptions:"):
            current = None
        elif current is not None:
            m = row.match(line)
            if m:
                blocks[current].append((m.group(1), m.group(3)))
    for section in {s for s, _ in final}:
        exp = collections.Counter()
        for (s, si), (c, f, r, t) in final.items():
            if s == section:
                exp[(progress_string(c, f, r, t), scope_string(si))] += 1
        if section not in blocks:
            ctx.violation(case, f"console output never showed section {section!r}; output:\n{text[-800:]}")
        got = collections.Counter()
        for prog, sc in blocks[section]:
            got[(prog.strip(), sc)] += 1
        if got != exp:
            ctx.violation(case, f"console: last rendering of section {section!r} shows {dict(got)}, final counts are {dict(exp)}")


ROW = re.compile(r'<td class="text-end">(.*?)</td>\s*<td class="text-end">(.*?)</td>\s*<td>(.*?)</td>', re.S)


def check_html(ctx, case, doc, final, scopes):
    titles = {"stale": "Determining stale value stores", "run": "Running graph"}
    for section in {s for s, _ in final}:
        pos = doc.find(f'<h3 class="mt-4">{titles[section]}</h3>')
        if pos < 0:
            ctx.violation(case, f"html: last rendering has no section {section!r}")
        end = doc.find("</table>", pos)
        rows = ROW.findall(doc[pos:end])
        got = collections.Counter()
        for prog, _elapsed, sc in rows:
            prog = re.sub(r"<span[^>]*>(.*?)</span>", r"\1", prog)
            if html.unescape(sc) == "Total":
                continue
            got[(html.unescape(prog).strip(), sc)] += 1
        exp = collections.Counter()
        for (s, si), (c, f, r, t) in final.items():
            if s == section:
                ss = html.escape(scope_string(si).replace(".", "​."))
                exp[(progress_string(c, f, r, t), ss)] += 1
        # a scope literally named "Total" is indistinguishable from the footer: ignore such rows on both sides
        exp = collections.Counter({k: v for k, v in exp.items() if html.unescape(k[1]) != "Total"})
        if got != exp:
            ctx.violation(case, f"html: last rendering of section {section!r} shows {dict(got)}, final counts are {dict(exp)}")


def check_ipython(ctx, case, obs, final, scopes):
    cache = obs._widget_cache
    if cache is None:
        ctx.violation(case, "the IPython observer never rendered")
    for (section, scope), (c, f, r, t) in final.items():
        lab = cache.get(("section", section, "scope", scope, "label"))
        bar = cache.get(("section", section, "scope", scope, "progress"))
        if lab is None or bar is None:
            ctx.violation(case, f"ipython: no widgets for section {section!r} scope {scope!r}")
        want = progress_string(c, f, r, t)
        if not lab.value.startswith(want + "; "):
            ctx.violation(case, f"ipython: label for {section}/{scope!r} is {lab.value!r}, final counts give {want!r}")
        if bar.max != t or bar.value != c + f:
            ctx.violation(case, f"ipython: progress bar for {section}/{scope!r} has value/max {bar.value}/{bar.max}, expected {c + f}/{t}")


def run_shard(ctx):
    @given(cases())
    def test(case):
        runner.guarded(ctx, check_case, case)

    runner.drive(ctx, test, ctx.n(12000, 120000))


def replay(ctx, case):
    case = uncanon(case)
    for sc in harness.replay_schedules(case["sched"], attempts=6):
        try:
            check_case(ctx, dict(case, sched=sc), record=False)
        except runner.Violation as v:
            return v.msg
    return None
