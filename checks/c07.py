"""C07 - run always terminates and leaves nothing running; cycles are rejected up front."""
import time

from hypothesis import given, strategies as st

from checks import common
from vlib import harness, refmodel, runner, specs, world

ID = "C07"
LEVEL = "exploration"
SHARDS = {"quick": 8, "thorough": 16}
LEVEL_TEXT = (
    "Generated-input search over (acyclic and cyclic plans, failure patterns, max_errors, worker counts up to more than "
    "the number of nodes, schedulers, schedules). Under the deterministic scheduler termination is decided exactly: "
    "'deadlock' = no runnable thread while some are unfinished, 'divergence' = step budget three orders of magnitude "
    "above the largest count seen; leftover activity = a task alive or an event logged after run returned. Real-thread "
    "runs compare threading.enumerate() before/after. Cyclic plans must be rejected with an empty event log. Bounded; "
    "presence not absence; liveness is only decided within the step budget."
)
LEVEL_NOTE = "Trusts vlib/detsched.py's blocking model (a watchdog hit is reported as inconclusive/exit 2, never a violation)."
TECHNIQUE = "property-based testing under a deterministic scheduler with exact deadlock detection; leftover-thread and empty-log invariants"
RULE = (
    "(also: a bundled HTML display with a working sink, on model threading and fake time - it must stop when the run ends) (also: transform_physical callbacks that close a cycle - error, and no call/read/write; one store object as the source of 2-4 nodes with a failing modified-time query) (also: the OS refusing the k-th Thread.start, self-dependencies, a bundled HTML display whose sink fails persistently) Hypothesis draws a plan (0..8/14 nodes; optionally registry), always-failing calls of any exception kind, max_errors, "
    "workers 1..nodes+3, scheduler, schedule; one case in four adds a back-edge b->a (a an ancestor of b) making the "
    "plan cyclic. Oracle: no deadlock/divergence verdict; when run returns or raises no task/thread it created is alive "
    "and no event is logged afterwards; a cycle among examined nodes (whole plan with a registry, ancestors of the output "
    "otherwise) makes run raise with an empty event log, a cycle elsewhere must not hang. Non-trivial = >= 2 workers with "
    "a non-empty failure pattern, or workers > nodes, or a cyclic plan. Distinct = SHA-1 of the case."
)
ASSUMPTIONS = ["step budget 2e6 scheduling points per case", "real-thread mode: 60 s watchdog => inconclusive"]


@st.composite
def cases(draw, max_nodes):
    use_reg = draw(st.sampled_from([False, False, True]))
    fail = draw(st.sampled_from([0, 3, 6]))
    g = specs.Gen(draw, registry=use_reg, opaque=False, failures=fail)
    n = draw(st.integers(0, max_nodes))
    while len(g.nodes) < n:
        g.add_any()
    spec = {"nodes": g.nodes, "output": g.output() if g.nodes else draw(st.sampled_from([None, {"c": 1}]))}
    cfg = draw(specs.run_configs(nodes=len(spec["nodes"]), max_errors=True))
    if draw(st.sampled_from([True, False, False])):
        cfg["workers"] = len(spec["nodes"]) + draw(st.integers(1, 3))
    case = {"spec": spec, "cfg": cfg, "sched": draw(harness.schedules()), "registry": use_reg}
    pure = [i for i, nd in enumerate(spec["nodes"]) if nd["k"] == "src" and specs.src_kind(nd) == "pure"]
    if use_reg and pure and draw(st.integers(0, 2)) == 0:
        # the same store object is the source of two nodes (two readers of one file), and/or its modified-time
        # query fails: whatever the stale check shares between the two examinations, the run still ends
        case["dup_source"] = {"src": draw(st.sampled_from(pure)), "copies": draw(st.integers(1, 3)),
                              "mt_fails": draw(st.sampled_from([True, True, False]))}
        cfg["stale_workers"] = draw(st.sampled_from([None, 2, 3, 4]))
    if draw(st.integers(0, 9)) == 0:
        # a bundled progress display whose output sink fails persistently (unwritable report file): whatever the
        # display does about it, run still returns and the display's thread has exited
        case["sched"] = draw(harness.schedules(det_only=True))
        # ("never": the sink works - the display must still stop when the run ends, whatever the calls raised)
        case["failing_sink"] = draw(st.sampled_from(["always", "after_first", "never"]))
    elif draw(st.integers(0, 5)) == 0:
        # the OS refuses to start the k-th thread run asks for (thread / pid limit)
        case["sched"] = draw(harness.schedules(det_only=True))
        case["thread_start_fails"] = draw(st.integers(1, 2 * cfg["workers"]))
    if "failing_sink" not in case and "thread_start_fails" not in case and draw(st.integers(0, 7)) == 0:
        # the caller's transform_physical closes a dependency cycle in the plan that is about to be executed
        case["tcycle"] = draw(st.sampled_from(["copy_cycle_new", "inplace_cycle_new", "copy_cycle_edge", "inplace_cycle_edge"]))
        for nd in spec["nodes"]:
            if nd["k"] == "call" and nd["beh"]["t"] == "raise":
                nd["beh"] = {"t": "ok"}
    elif draw(st.sampled_from([True, False, False, False])):
        # a back edge b -> a with a a strict ancestor of b
        cands = []
        for b in range(len(g.nodes)):
            if g.nodes[b]["k"] in ("unpack",) or (g.nodes[b]["k"] == "gather" and ("n" in g.nodes[b]["v"] or "u" in g.nodes[b]["v"])):
                continue
            for a in specs.strict_ancestors(spec, b):
                if g.nodes[a]["k"] in ("unpack",) or (g.nodes[a]["k"] == "gather" and ("n" in g.nodes[a]["v"] or "u" in g.nodes[a]["v"])):
                    continue
                cands.append([{"n": b}, {"n": a}])
        for b in range(len(g.nodes)):  # a node made to depend on itself
            if g.nodes[b]["k"] in ("call", "lit", "src"):
                cands.append([{"n": b}, {"n": b}])
        if cands:
            spec["back"] = [draw(st.sampled_from(cands))]
            for nd in spec["nodes"]:
                if nd["k"] == "call" and nd["beh"]["t"] == "raise":
                    nd["beh"] = {"t": "ok"}
    return case


def anc_with_back(spec, roots):
    extra = {}
    for fr, to in spec.get("back", []):
        extra.setdefault(specs.ref_index(to), set()).add(specs.ref_index(fr))
    seen, stack = set(), list(roots)
    while stack:
        i = stack.pop()
        if i in seen:
            continue
        seen.add(i)
        stack.extend(specs.preds(spec["nodes"][i]))
        stack.extend(extra.get(i, ()))
    return seen


def check_case(ctx, case, record=True):
    spec, cfg, sc = case["spec"], case["cfg"], case["sched"]
    w = world.World(spec, registry=case["registry"], pause=harness.pause_for(sc))
    if case["registry"]:
        w.init_sources()
    dup = case.get("dup_source")
    if dup:
        for _ in range(dup["copies"]):
            w.registry.source(w.plan, w.stores[dup["src"]])
        if dup["mt_fails"]:
            w.flaky_ops = {("mt", dup["src"]): 10 ** 6}
    mark = {}

    def after(out):
        mark["n"] = len(w.events)

    tsf = case.get("thread_start_fails")

    sink = case.get("failing_sink")
    sink_calls = [0]

    def failing_output(data):
        sink_calls[0] += 1
        if sink == "always" or (sink == "after_first" and sink_calls[0] > 1):
            raise OSError(28, "injected: cannot write the progress report")

    def thunk():
        if tsf and sc.get("mode") != "real":
            from vlib import detsched
            detsched._current.fail_thread_start = tsf
        if sink:
            from uberjob.progress import html_progress
            return w.run(cfg, registry=case["registry"], progress=html_progress(failing_output))
        if case.get("tcycle"):
            return w.run(cfg, registry=case["registry"], transform_physical=w.transform(case["tcycle"]))
        return w.run(cfg, registry=case["registry"])

    xkw = {}
    if sink and sc.get("mode") != "real":
        import uberjob.progress._simple_progress_observer as spo
        from vlib import detsched
        # the display's update thread runs on the model threading too (its timed waits fire at the scheduler's
        # discretion); a display that keeps retrying a dead sink shows up as divergence / a thread that never exits
        # (step budget: fault-free cases of this family need at most ~2e4 steps at <= 8 nodes; a display thread that
        # never stops renders on every step, so the smaller budget keeps such a case within the wall-clock watchdog)
        xkw = {"extra": [(spo, "threading", detsched.MODEL)] + ([(spo, "time", detsched.FakeTime())] if hasattr(spo, "time") else []),
               "max_steps": 60_000 if sink == "never" and len(spec["nodes"]) <= 8 else 300_000}
    out = harness.execute(thunk, sc, after=after, **xkw)
    if sink:
        # the update thread dying of the sink's own error is the display's business, not a leak of run
        out.uncaught = [u for u in out.uncaught if not isinstance(u[1], OSError)]
    fired = bool(tsf) and out.sched is not None and getattr(out.sched, "thread_starts", 0) >= tsf
    if out.mode == "real":
        time.sleep(0.001)
    case2 = dict(case, sched=harness.with_trace(sc, out))
    cyclic = bool(spec.get("back"))
    nfail = sum(1 for e in w.events if e[1] == "raise")
    workers = cfg["workers"]
    if record:
        cl = common.sched_classes(case, out) + [f"status:{out.status}"]
        if cyclic:
            cl.append("cyclic")
        if workers > len(spec["nodes"]):
            cl.append("workers>nodes")
        if not spec["nodes"]:
            cl.append("empty_plan")
        if fired:
            cl.append("thread_start_refused")
        if sink:
            cl.append(("failing_display_sink:" if sink != "never" else "display_sink:") + sink)
        if dup:
            cl.append("one_store_several_source_nodes" + ("+mt_query_fails" if dup["mt_fails"] else ""))
        if case.get("tcycle"):
            cl.append("cycle_closed_by_transform_physical:" + str(getattr(w, "tcycle_made", None)))
        nt = (workers >= 2 and nfail > 0) or workers > len(spec["nodes"]) or cyclic or bool(case.get("tcycle"))
        ctx.case(case, nt, cl)
    # (a refused thread start need not surface as an error: an implementation may carry on with the threads it has;
    # the statement only requires that run ends and leaves nothing running - asserted below)
    if out.verdict:
        ctx.violation(case2, f"run did not terminate: scheduler verdict {out.verdict}; tasks: {out.verdict_info}")
    if out.uncaught:
        ctx.violation(case2, f"exception escaped a thread created by run: {out.uncaught!r}")
    if out.alive_after:
        ctx.violation(case2, f"threads created by run still alive when it returned: {out.alive_after}")
    if "n" in mark and len(w.events) > mark["n"]:
        ctx.violation(case2, f"events logged after run returned: {[(e[1], e[2]) for e in w.events[mark['n']:]]}")
    if case.get("tcycle") and getattr(w, "tcycle_made", None):
        # every node of the transformed physical plan is one the run has to examine; the stale check (modified-time
        # queries) legitimately ran before the transformation, calls and store reads/writes must not
        work = [(e[1], e[2]) for e in w.events if not str(e[1]).startswith("mt")]
        if out.status == "ok":
            ctx.violation(case2, f"transform_physical closed a dependency cycle ({w.tcycle_made}) but run returned {out.value!r}")
        if work:
            ctx.violation(case2, f"transform_physical closed a dependency cycle ({w.tcycle_made}) but work was done: {work[:10]}")
    if cyclic and not fired:
        to = specs.ref_index(spec["back"][0][1])
        if case["registry"] and refmodel.entries(spec):
            examined = True  # a non-empty registry makes the stale check examine the whole plan
        else:
            o = spec.get("output")
            roots = [specs.ref_index(r) for r in specs.arg_refs(o)] if o else []
            examined = to in anc_with_back(spec, roots)
        if record:
            ctx.count("cycle_examined" if examined else "cycle_not_examined")
        if examined:
            if out.status == "ok":
                ctx.violation(case2, f"plan has a dependency cycle among examined nodes ({spec['back']}) but run returned {out.value!r}")
            if w.events:
                ctx.violation(case2, f"cycle reported only after work had started: {[(e[1], e[2]) for e in w.events[:10]]}")
        elif out.status != "ok" and w.events:
            ctx.violation(case2, f"run raised {out.value!r} for a cycle outside the examined nodes after doing work: "
                                 f"{[(e[1], e[2]) for e in w.events[:10]]}")


def run_shard(ctx):
    max_nodes = 8 if ctx.tier == "quick" else 14

    @given(cases(max_nodes))
    def test(case):
        runner.guarded(ctx, check_case, case)

    runner.drive(ctx, test, ctx.n(9600, 120000))


def replay(ctx, case):
    case = common.decode(case)
    for sc in harness.replay_schedules(case["sched"]):
        try:
            check_case(ctx, dict(case, sched=sc), record=False)
        except runner.Violation as v:
            return v.msg
    return None
