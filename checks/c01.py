"""C01 - a call never starts before everything it depends on has finished successfully."""
import networkx as nx
from hypothesis import given, strategies as st

from checks import common
from vlib import detsched, harness, runner, specs, world

ID = "C01"
LEVEL = "exploration"
SHARDS = {"quick": 8, "thorough": 16}
LEVEL_TEXT = (
    "Generated-input search over (acyclic plan, worker count, scheduler, thread schedule). The harness "
    "owns the schedule: the unmodified engine runs on a deterministic cooperative scheduler that can "
    "preempt between any two bytecodes of the engine files and at every lock/condition/queue operation; "
    "a history invariant over the totally ordered event log is the oracle. ~15% of cases run on real "
    "threads with jitter. Bounded (<= 14 nodes, <= 17 workers); shows presence, not absence."
)
LEVEL_NOTE = (
    "Trusts the model threading primitives of vlib/detsched.py (Lock/Condition/Thread semantics, FIFO notify) "
    "and CPython's GIL atomicity of single bytecodes; C-level operations are atomic; free-threaded builds not modelled."
)
TECHNIQUE = "property-based testing with harness-owned thread schedules (deterministic scheduler, opcode-level preemption) + event-log invariant"
RULE = (
    "Hypothesis draws an acyclic plan spec (argument/keyword/plain edges, parallel edges, literal chains and the calls -> literal -> literal -> calls barrier idiom, outputs with and without the literals, literals with "
    "dependencies, unpack/gather nodes), max_workers 1..nodes+3, scheduler default/random (and 'cheap' when "
    "run_function_on_graph is driven directly), and a schedule (seeded random preemption, PCT priorities, "
    "run-length list, or real threads). Oracle: at every start(n) in the event log every transitive "
    "predecessor of n has an earlier end and no raise. Non-trivial = some node has >= 2 distinct predecessors, "
    ">= 2 workers, and (deterministic mode) >= 1 context switch inside engine code, or real-thread mode. "
    "Distinct = SHA-1 of (spec, config, schedule)."
)
ASSUMPTIONS = ["harness call bodies contain explicit scheduling points so 'in flight' has extent"]


@st.composite
def cases(draw, max_nodes):
    spec = draw(specs.plan_specs(max_nodes=max_nodes, min_nodes=2, opaque=False, lits=2))
    specs.use_dependent_literals(draw, spec["nodes"])
    spec["output"] = common.all_refs_output(spec, lits=draw(st.booleans()))
    cfg = draw(specs.run_configs(nodes=len(spec["nodes"])))
    direct = draw(st.sampled_from([True, False, False]))
    if direct:
        cfg["scheduler"] = draw(st.sampled_from(["default", "random", "cheap"]))
    return {"spec": spec, "cfg": cfg, "sched": draw(harness.schedules()), "direct": direct}


def run_direct(case):
    from uberjob._execution.run_function_on_graph import run_function_on_graph

    sc = case["sched"]
    w = world.World(case["spec"], registry=False, pause=harness.pause_for(sc))
    graph = w.plan.graph
    ids = {n: i for i, n in enumerate(graph.nodes())}

    def fn(node):
        w.log("start", ids[node])
        w.pause("call")
        w.log("end", ids[node])

    def thunk():
        with world.seeded_random(case["cfg"].get("rseed", 0)):
            try:
                run_function_on_graph(graph, fn, worker_count=case["cfg"]["workers"],
                                      scheduler=case["cfg"].get("scheduler"))
                return "ok", None
            except BaseException as e:
                return "err", e

    out = harness.execute(thunk, sc)
    anc = {ids[n]: {ids[a] for a in nx.ancestors(graph, n)} for n in graph.nodes()}
    return w, out, anc, len(ids)


def check_case(ctx, case, record=True):
    spec = case["spec"]
    if case["direct"]:
        w, out, anc, total = run_direct(case)
        tracked = set(range(total))
    else:
        w, out = common.run_world(case)
        callset = {i for i, nd in enumerate(spec["nodes"]) if nd["k"] == "call"}
        anc = {i: specs.strict_ancestors(spec, i) & callset for i in callset}
        from vlib import refmodel
        tracked = refmodel.needed(spec, output=spec["output"], registry=False)["exec"]
    fan = common.fanin2(spec)
    workers = case["cfg"]["workers"]
    nontrivial = fan and workers >= 2 and (out.mode == "real" or out.engine_switches >= 1)
    if record:
        ctx.case(case, nontrivial, common.sched_classes(case, out) + (["direct"] if case["direct"] else ["via_run"])
                 + (["fanin>=2"] if fan else []))
        ctx.count("sched_steps", k=out.steps)
        ctx.count("context_switches", k=out.switches)
    case2 = dict(case, sched=harness.with_trace(case["sched"], out))
    if out.verdict:
        ctx.violation(case2, f"scheduler verdict {out.verdict}: {out.verdict_info}")
    if out.uncaught:
        ctx.violation(case2, f"exception escaped a worker thread: {out.uncaught!r}")
    if out.status != "ok":
        ctx.violation(case2, f"run raised {type(out.value).__name__}: {out.value} (cause {out.value.__cause__!r})")
    ended, raised = set(), set()
    started = set()
    for seq, kind, idx, extra, _ in w.events:
        if kind == "start":
            if idx in started:
                pass  # C04's business
            started.add(idx)
            missing = [a for a in anc.get(idx, ()) if a not in ended]
            if missing:
                ctx.violation(case2, f"node {idx} started at event {seq} before its dependencies {sorted(missing)} had finished; "
                                     f"log={[(e[1], e[2]) for e in w.events[:seq + 1]]}")
        elif kind == "end":
            ended.add(idx)
        elif kind == "raise":
            raised.add(idx)
    if tracked - started:
        ctx.violation(case2, f"run returned normally but nodes {sorted(tracked - started)} never ran (all were requested)")


def run_shard(ctx):
    max_nodes = 8 if ctx.tier == "quick" else 14

    @given(cases(max_nodes))
    def test(case):
        runner.guarded(ctx, check_case, case)

    runner.drive(ctx, test, ctx.n(9600, 120000))


def replay(ctx, case):
    case = common.decode(case)
    for sc in harness.replay_schedules(case["sched"]):
        try:
            check_case(ctx, dict(case, sched=sc), record=False)
        except runner.Violation as v:
            return v.msg
    return None
