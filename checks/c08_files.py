"""C08, file-backed variant: a forked child runs over PickleFileStore files and is killed with
os._exit before every file operation; the parent judges the directory it leaves behind."""
import os
import shutil
import tempfile

from hypothesis import given, strategies as st

from checks import regcommon
from vlib import fileworld, refmodel, runner, specs, world
from vlib.specs import W, vdiff


def mtimes(directory):
    return {n: os.path.getmtime(os.path.join(directory, n)) for n in os.listdir(directory) if n.endswith(".pkl")}


def apply_prefix(w, case):
    w.init_sources()
    for op in case["ops"][:-1]:
        if op["op"] == "update":
            w.set_source(op["src"])
        elif op["op"] == "delete":
            w.delete(op["entry"])
        else:
            regcommon.run_op(w, dict(op, sched={"mode": "real", "jitter": 0}))


def final_cfg(w, op):
    cfg = dict(op["cfg"])
    cfg["max_errors"] = 0
    ft = regcommon.fresh_tick(w, op)
    if ft is not None:
        cfg["fresh"] = ft
    return cfg, ft


def check_case(ctx, case, record=True, only=None):
    spec = case["spec"]
    op = case["ops"][-1]
    root = tempfile.mkdtemp(prefix="c08f-")
    try:
        sdir = os.path.join(root, "state")
        os.mkdir(sdir)
        with fileworld.StampingInjector(sdir):
            w = fileworld.FileWorld(spec, sdir)
            apply_prefix(w, case)
        # baseline on a copy: learn the file-operation stream
        bdir = os.path.join(root, "base")
        shutil.copytree(sdir, bdir)
        with fileworld.StampingInjector(bdir) as inj:
            wb = fileworld.FileWorld(spec, bdir)
            cfg, ft = final_cfg(wb, op)
            st_, val = wb.run(cfg, output=op.get("output"))
        if st_ != "ok":
            ctx.violation({"kind": "files", "case": case}, f"file-backed baseline run failed: {val!r} cause {getattr(val, '__cause__', None)!r}")
        nops = inj.count
        if record:
            ctx.count("file_cases")
            ctx.count("file_ops_total", k=nops)
        ks = range(nops) if only is None else [only]
        for k in ks:
            d = os.path.join(root, f"k{k}")
            shutil.copytree(sdir, d)
            before = mtimes(d)
            pid = os.fork()
            if pid == 0:
                try:
                    with fileworld.StampingInjector(d, {"k": k, "kind": "exit"}):
                        wc = fileworld.FileWorld(spec, d)
                        wc.run(cfg, output=op.get("output"))
                finally:
                    os._exit(0)
            os.waitpid(pid, 0)
            judge(ctx, case, spec, op, cfg, ft, d, before, k, nops, inj.log, record)
            shutil.rmtree(d, ignore_errors=True)
    finally:
        shutil.rmtree(root, ignore_errors=True)


def judge(ctx, case, spec, op, cfg, ft, d, before, k, nops, oplog, record):
    key_case = {"kind": "files", "case": case, "k": k}
    opname = oplog[k][1:] if k < len(oplog) else ("-",)
    tag = f"[file-backed run killed before file op {k}/{nops} {opname}] "
    after = mtimes(d)
    written = {n for n, t in after.items() if before.get(n) != t}
    if record:
        ctx.case(key_case, 0 < k < nops - 1 and bool(written), ["files", f"fileop:{opname[0]}"])
    with fileworld.StampingInjector(d):
        w = fileworld.FileWorld(spec, d)
        ood = refmodel.out_of_date(spec, regcommon.times_of(w), ft)
        ref = refmodel.Ref(w, registry=True)
        for i in refmodel.entries(spec) - ood:
            nd = spec["nodes"][i]
            if specs.src_kind(nd) in ("pure", "alias"):
                continue
            exp = W(ref.raw(nd["deps"][0]["n"])) if nd["k"] == "src" else ref.raw(i)
            dd = vdiff(exp, w.stores[i].value)
            if dd:
                ctx.violation(key_case, tag + f"store {i} counts as up to date but holds {w.stores[i].value!r}, from-scratch {exp!r}: {dd}")
        st_, val = w.run(cfg, output=op.get("output"))
        if st_ != "ok":
            ctx.violation(key_case, tag + f"follow-up run failed: {val!r} cause {getattr(val, '__cause__', None)!r}; dir={sorted(os.listdir(d))}")

        class O:
            value = val
        msg = regcommon.check_from_scratch(w, O, op, tag + "follow-up run: ")
        if msg:
            ctx.violation(key_case, msg)
        again = {f"n{e[2]}.pkl" for e in w.events if e[1] == "wr_start"} & written
        if again:
            ctx.violation(key_case, tag + f"files {sorted(again)} were completely written before the kill but the follow-up run wrote them again")
    # (a staging file of the killed writer that survives the follow-up run is not a violation: the statement only
    # requires that it does not disturb later writes and reads, which the follow-up run has just shown)


def run(ctx):
    n = ctx.n(64, 1600)

    @given(regcommon.reg_cases(max_nodes=7, max_ops=3, faults=False, det_share=0, disturb_last=True))
    def test(case):
        runner.guarded(ctx, check_case, case)

    runner.drive(ctx, test, n)


def replay(ctx, case):
    only = case.get("k")
    try:
        runner.guarded(ctx, check_case, case["case"], record=False, only=only)
    except runner.Violation as v:
        return v.msg
    return None
