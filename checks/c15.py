"""C15 - progress observers receive an exact, well-formed account of every run."""
import collections
import threading

import uberjob
from hypothesis import given, strategies as st
from uberjob.progress import Progress, ProgressObserver

from checks import common, regcommon
from vlib import harness, refmodel, runner, specs, world

ID = "C15"
LEVEL = "exploration"
SHARDS = {"quick": 8, "thorough": 16}
LEVEL_TEXT = (
    "Generated-input search over (plan with arbitrary nested scopes, optional registry and store state, Exception-only "
    "failure patterns, max_errors, workers, scheduler, schedule, 1-3 recording observers combined through a composite). "
    "Oracle: grammar/invariants over the recorded notification sequence (enter first, exactly one exit last, totals before "
    "running, running <= total, each running matched by exactly one completed/failed, nothing running at exit, "
    "completed == total on success) and exact 'run' / 'stale' totals per scope computed independently from the spec "
    "(needed-set oracle) and from the observed executions; composite members must receive identical notifications. "
    "Bounded; presence not absence."
)
LEVEL_NOTE = (
    "Scope labels of library-internal functions (gather_*, unpack, getitem, source) are matched by their qualified-name "
    "suffix only (uberjob strips module names ending in 'builtins'); harness functions and store classes live in regular modules."
)
TECHNIQUE = "property-based testing with harness-owned schedules: notification-sequence grammar + exact per-scope totals vs. spec-level oracle"
RULE = (
    "(also: a composite member that raises in its own increment_completed/increment_failed for one section - the healthy members never see more closures than runnings; every shard process first runs and discards a plan of 4600 per-item closures; the Progress members are passed as tuple/list/generator/iterator/frozenset; falsy exception instances) Hypothesis draws a plan spec with nested scopes (optionally registry world with a short history), always-failing "
    "calls raising Exception subclasses, max_errors, workers, scheduler, schedule, 1..3 observers (optionally one more composite member failing in its own __enter__/__exit__) and optionally a transform_physical callback (copying / in-place, adding a call, wrapping the output). Oracle as in "
    "LEVEL_TEXT. Non-trivial = >= 2 distinct scopes and (a failure or a registry). Distinct = SHA-1 of the case."
)
ASSUMPTIONS = ["calls end normally or with an Exception (the statement's proviso)"]

STORE_CLS = "vlib.world.LogicalStore"
GL = {"L": "gather_list", "T": "gather_tuple", "S": "gather_set", "D": "gather_dict"}


class Recorder(ProgressObserver):
    def __init__(self):
        self.events = []
        self.lock = threading.Lock()

    def _add(self, *ev):
        with self.lock:
            self.events.append(ev)

    def __enter__(self):
        self._add("enter")

    def __exit__(self, exc_type, exc_val, exc_tb):
        self._add("exit", None if exc_type is None else exc_type.__name__)

    def increment_total(self, *, section, scope, amount):
        self._add("total", section, scope, amount)

    def increment_running(self, *, section, scope):
        self._add("running", section, scope)

    def increment_completed(self, *, section, scope):
        self._add("completed", section, scope)

    def increment_failed(self, *, section, scope, exception):
        self._add("failed", section, scope, type(exception).__name__)


class ObserverFault(Exception):
    pass


class FaultyObserver(Recorder):
    """A composite member that fails in its own __enter__ or __exit__ (a display that cannot open / flush)."""

    def __init__(self, where):
        super().__init__()
        self.where = where

    def __enter__(self):
        if self.where == "enter":
            raise ObserverFault("observer cannot be entered")
        super().__enter__()

    def __exit__(self, exc_type, exc_val, exc_tb):
        super().__exit__(exc_type, exc_val, exc_tb)
        if self.where == "exit":
            raise ObserverFault("observer failed while exiting")

    # ... or in its own increment_completed / increment_failed for one section (a display that cannot draw)
    section = None

    def increment_completed(self, *, section, scope):
        super().increment_completed(section=section, scope=scope)
        if self.where == "completed" and section == self.section:
            raise ObserverFault("observer failed in increment_completed")

    def increment_failed(self, *, section, scope, exception):
        super().increment_failed(section=section, scope=scope, exception=exception)
        if self.where == "failed" and section == self.section:
            raise ObserverFault("observer failed in increment_failed")


def gather_labels(a, out=None):
    if out is None:
        out = []
    if "c" in a or "n" in a or "u" in a or "O" in a or not specs.has_ref(a):
        return out
    if "D" in a:
        out.append("gather_dict")
        for k, v in a["D"]:
            if specs.has_ref(k) or specs.has_ref(v):
                out.append("gather_tuple")
                gather_labels(k, out)
                gather_labels(v, out)
        return out
    tag = "L" if "L" in a else "T" if "T" in a else "S"
    out.append(GL[tag])
    items = a[tag]
    if tag == "S":
        uniq = []
        for x in items:
            if x not in uniq:
                uniq.append(x)
        items = uniq
    for x in items:
        gather_labels(x, out)
    return out


def fn_label(i, nd):
    return "harness." + (nd.get("fname") or f"f{i % 3}")


def expected_run(spec, need, output, registry):
    c = collections.Counter()
    nodes = spec["nodes"]
    active = need["active"]
    for i in active:
        nd = nodes[i]
        sc = tuple(nd.get("scope", []))
        if nd["k"] == "call":
            c[(*sc, fn_label(i, nd))] += 1
        if nd["k"] == "unpack":
            c[(*sc, "unpack")] += 1
        for a in specs.node_args(nd):
            for lab in gather_labels(a):
                c[(*sc, lab)] += 1
    # unpack elements
    elems = collections.defaultdict(set)

    def note(ref):
        if "u" in ref:
            elems[ref["u"]].add(ref["j"])

    ent = refmodel.entries(spec) if registry else set()
    for i in active:
        nd = nodes[i]
        if i in ent and nd["k"] == "src":
            refs = list(nd["deps"])
        else:
            refs = [r for a in specs.node_args(nd) for r in specs.arg_refs(a)] + list(nd.get("deps", []))
        for r in refs:
            note(r)
    if output is not None:
        for r in specs.arg_refs(output):
            note(r)
        for lab in gather_labels(output):
            c[(lab,)] += 1
    for i, js in elems.items():
        sc = tuple(nodes[i].get("scope", []))
        c[(*sc, "getitem")] += len(js)
    for i in need["reads"] | need["writes"]:
        nd = nodes[i]
        sc = tuple(nd.get("scope", []))
        base = (*sc, fn_label(i, nd)) if nd["k"] == "call" else (*sc, "source") if nd["k"] == "src" else sc
        if i in need["reads"]:
            c[(*base, STORE_CLS + ".read")] += 1
        if i in need["writes"]:
            c[(*base, STORE_CLS + ".write")] += 1
    return c


def expected_stale(spec, output):
    c = collections.Counter()
    for i, nd in enumerate(spec["nodes"]):
        sc = tuple(nd.get("scope", []))
        k = nd["k"]
        if k == "call":
            base = (*sc, fn_label(i, nd))
            c[(*base, STORE_CLS) if nd.get("stored") else base] += 1
        elif k == "src":
            c[(*sc, "source", STORE_CLS)] += 1
        elif k == "unpack":
            c[(*sc, "unpack")] += 1
            c[(*sc, "getitem")] += nd["n"]
        for a in specs.node_args(nd):
            for lab in gather_labels(a):
                c[(*sc, lab)] += 1
    if output is not None:
        for lab in gather_labels(output):
            c[(lab,)] += 1
    return c


INTERNAL_LABELS = ("gather_list", "gather_tuple", "gather_set", "gather_dict", "unpack", "getitem")


def user_part(counter):
    """The entries of a per-scope counter whose label is not a library-internal call."""
    return collections.Counter({k: v for k, v in counter.items() if not (k and k[-1] in INTERNAL_LABELS)})


def norm_scope(scope):
    """Strip module prefixes of library-internal labels (matched by qualified-name suffix)."""
    out = list(scope)
    for i, x in enumerate(out):
        if isinstance(x, str):
            for suf in ("gather_list", "gather_tuple", "gather_set", "gather_dict", "unpack", "getitem", "source"):
                if x == suf or x.endswith("." + suf):
                    out[i] = suf
    return tuple(out)


@st.composite
def cases(draw, max_nodes):
    use_reg = draw(st.booleans())
    fail = draw(st.sampled_from([0, 0, 3, 6]))
    g = specs.Gen(draw, registry=use_reg, opaque=False, failures=fail, late=True, lits=2)
    n = draw(st.integers(1, max_nodes))
    while len(g.nodes) < n:
        g.add_any()
    for nd in g.nodes:
        if nd["k"] == "call" and nd["beh"]["t"] == "raise":
            nd["beh"]["exc"] = draw(st.sampled_from(["exc", "val", "exc", "val", "falsy"]))
    spec = {"nodes": g.nodes, "output": g.output()}
    cfg = draw(specs.run_configs(nodes=len(spec["nodes"]), max_errors=True))
    pre = []
    if use_reg:
        for _ in range(draw(st.integers(0, 2))):
            pre.append(draw(st.sampled_from(["run", "delete_some", "update_some"])))
    tkind = draw(st.sampled_from([None, None, None, "copy", "copy_add", "copy_wrap", "inplace_add", "inplace_wrap"]))
    nobs = draw(st.integers(1, 3))
    faulty = None
    if draw(st.integers(0, 7)) == 0:
        faulty = {"pos": draw(st.integers(0, nobs)), "where": draw(st.sampled_from(["enter", "exit", "completed", "failed"])),
                  "section": draw(st.sampled_from(["stale", "run"]))}
    # how the several Progress objects reach run(): run() documents "Progress | Iterable[Progress]"
    pform = draw(st.sampled_from(["tuple", "tuple", "list", "gen", "iter", "set"]))
    return {"spec": spec, "cfg": cfg, "registry": use_reg, "pre": pre, "nobs": nobs,
            "sched": draw(harness.schedules()), "transform": tkind, "faulty": faulty, "pform": pform}


def validate_sequence(events, success):
    """Grammar / invariants over one observer's notification list. Returns a message or None."""
    if not events or events[0][0] != "enter":
        return f"first notification is {events[:1]}, expected enter"
    exits = [i for i, e in enumerate(events) if e[0] == "exit"]
    if len(exits) != 1 or exits[0] != len(events) - 1:
        return f"expected exactly one exit, as the last notification; exits at {exits} of {len(events)}"
    if sum(1 for e in events if e[0] == "enter") != 1:
        return "observer entered more than once"
    total = collections.Counter()
    running = collections.Counter()
    started = collections.Counter()
    done = collections.Counter()
    completed = collections.Counter()
    for e in events[1:-1]:
        kind = e[0]
        key = (e[1], e[2])
        if kind == "total":
            if started[key]:
                return f"total for {key} announced after something in it was reported running"
            total[key] += e[3]
        elif kind == "running":
            if key not in total:
                return f"{key} reported running before its total was announced"
            started[key] += 1
            running[key] += 1
            if started[key] > total[key]:
                return f"{key}: {started[key]} reported running but total is {total[key]}"
        elif kind in ("completed", "failed"):
            running[key] -= 1
            if running[key] < 0:
                return f"{key}: {kind} without a matching running"
            done[key] += 1
            if kind == "completed":
                completed[key] += 1
    left = {k: v for k, v in running.items() if v}
    if left:
        return f"still reported running when run returned: {left}"
    if success:
        for key, t in total.items():
            if completed[key] != t:
                return f"successful run but completed {completed[key]} != total {t} for {key}"
    return None


def check_case(ctx, case, record=True):
    spec, cfg, sc = case["spec"], case["cfg"], case["sched"]
    w = world.World(spec, registry=case["registry"], pause=harness.pause_for(sc))
    if case["registry"]:
        w.init_sources()
        ent = sorted(refmodel.entries(spec))
        for p in case["pre"]:
            if p == "run":
                w.run({"workers": 2}, output=None)
            elif p == "delete_some":
                for i in ent[::2]:
                    if spec["nodes"][i]["k"] != "src" or spec["nodes"][i]["deps"]:
                        w.delete(i)
            else:
                for i in ent:
                    if spec["nodes"][i]["k"] == "src" and not spec["nodes"][i]["deps"]:
                        w.set_source(i)
        w.reset_log()
    recs = [Recorder() for _ in range(case["nobs"])]
    faulty = case.get("faulty")
    if faulty:
        members = list(recs)
        members.insert(faulty["pos"], FaultyObserver(faulty["where"]))
        members[faulty["pos"]].section = faulty.get("section")
        progress = tuple(Progress(lambda r=r: r) for r in members)
    elif len(recs) == 1 and case.get("pform", "tuple") == "tuple":
        progress = Progress(lambda: recs[0])
    else:
        progress = tuple(Progress(lambda r=r: r) for r in recs)
    pform = case.get("pform", "tuple")
    if faulty and pform == "set":
        pform = "list"  # the faulty-member oracle speaks about positions
    if isinstance(progress, tuple) and pform != "tuple":
        members_ = progress
        progress = {"list": list, "iter": iter, "set": frozenset,
                    "gen": lambda ms: (m for m in ms)}[pform](members_)
    use_reg = case["registry"] and bool(refmodel.entries(spec))
    times = regcommon.times_of(w) if case["registry"] else {}
    ood = refmodel.out_of_date(spec, times, None) if use_reg else set()
    output = spec.get("output")
    if output == {"c": None}:
        output = None
    need = refmodel.needed(spec, ood, output, registry=use_reg)
    tkind = case.get("transform")
    xkw = {"transform_physical": w.transform(tkind)} if tkind else {}
    out = harness.execute(lambda: w.run(cfg, registry=case["registry"], progress=progress, **xkw), sc)
    case2 = dict(case, sched=harness.with_trace(sc, out))
    if faulty:
        # one member of the composite fails in its own __enter__/__exit__: every member that was entered is
        # still exited exactly once, last, and the entered members saw the same notifications
        if record:
            ctx.case(case, True, common.sched_classes(case, out) + [f"faulty_member:{faulty['where']}", f"status:{out.status}"])
        if out.verdict or out.uncaught:
            ctx.violation(case2, f"scheduler verdict {out.verdict} {out.verdict_info}; uncaught {out.uncaught!r}")
        in_notification = faulty["where"] in ("completed", "failed")
        if out.status == "ok" and not in_notification:
            ctx.violation(case2, "an observer failed in __enter__/__exit__ but run returned normally")
        entered = []
        for ri, r in enumerate(recs):
            evs = r.events
            if not evs:
                continue
            if evs[0][0] != "enter":
                ctx.violation(case2, f"observer {ri} (composite with a failing member): notified without being entered: {evs[:3]}")
            if sum(1 for e in evs if e[0] == "exit") != 1 or evs[-1][0] != "exit":
                ctx.violation(case2, f"observer {ri} (composite with a member failing in __{faulty['where']}__) was entered but "
                                     f"not exited exactly once at the end: {[e[0] for e in evs][-6:]}")
            entered.append(r)
            if in_notification:
                # a member failing in its own increment_completed / increment_failed: what the healthy members are told
                # stays well-formed - never more 'completed'/'failed' than 'running' for a section and scope
                open_ = collections.Counter()
                for e in evs:
                    if e[0] == "running":
                        open_[(e[1], norm_scope(e[2]))] += 1
                    elif e[0] in ("completed", "failed"):
                        open_[(e[1], norm_scope(e[2]))] -= 1
                        if open_[(e[1], norm_scope(e[2]))] < 0:
                            ctx.violation(case2, f"observer {ri} (composite with a member failing in its own increment_{faulty['where']} "
                                                 f"for section {faulty.get('section')}): {e[0]!r} for {e[1:3]} without a matching 'running' "
                                                 f"(one 'running' was closed twice): {[x[:2] for x in evs][-8:]}")
        if in_notification:
            return
        def norm(evs):  # which exception a member sees in __exit__ depends on its position relative to the failing one
            return collections.Counter(repr(e[:1] if e[0] == "exit" else e) for e in evs)

        for r in entered[1:]:
            if norm(r.events) != norm(entered[0].events):
                ctx.violation(case2, "entered members of the composite received different notifications")
        return
    exp_run = expected_run(spec, need, output, use_reg)
    extra_exec = set()
    if tkind and tkind.endswith("add"):
        exp_run[("xfs", "harness.xf")] += 1
        extra_exec.add("xf")
    if tkind and tkind.endswith("wrap") and output is not None:
        exp_run[("xfs", "harness.xw")] += 1
        extra_exec.add("xw")
    scopes = {k for k in exp_run}
    failed_any = any(e[1] == "raise" for e in w.events)
    if record:
        ctx.case(case, len(scopes) >= 2 and (failed_any or use_reg),
                 common.sched_classes(case, out) + [f"status:{out.status}", f"observers:{case['nobs']}", f"progress_as:{pform}",
                                                    "registry" if use_reg else "no_registry", f"transform:{tkind}"])
    if out.verdict or out.uncaught:
        ctx.violation(case2, f"scheduler verdict {out.verdict} {out.verdict_info}; uncaught {out.uncaught!r}")
    if failed_any and out.status == "ok":
        ctx.violation(case2, "a call failed but run returned normally")
    for ri, r in enumerate(recs):
        msg = validate_sequence(r.events, out.status == "ok")
        if msg:
            ctx.violation(case2, f"observer {ri}: {msg}; notifications={r.events[:40]}")
        tot_run = collections.Counter()
        tot_stale = collections.Counter()
        for e in r.events:
            if e[0] == "total":
                (tot_run if e[1] == "run" else tot_stale)[norm_scope(e[2])] += e[3]
        stale_failed = any(e[0] == "failed" and e[1] == "stale" for e in r.events)
        # Scopes of user functions and store operations are compared with what the model says is executed; scopes of
        # library-internal calls (gather built-ins, unpack, getitem) only have to be self-consistent (announced ==
        # reported completed, checked by validate_sequence): how many such calls an implementation creates for a
        # structure is its own business.
        if not stale_failed and user_part(tot_run) != user_part(exp_run):
            a, b = user_part(tot_run), user_part(exp_run)
            ctx.violation(case2, f"observer {ri}: 'run' totals {dict(a)} differ from the calls of the physical plan "
                                 f"{dict(b)} (extra {dict(a - b)}, missing {dict(b - a)})")
        if use_reg:
            exp_stale = expected_stale(spec, output)
            a, b = user_part(tot_stale), user_part(exp_stale)
            if a != b:
                ctx.violation(case2, f"observer {ri}: 'stale' totals differ from the calls examined: extra "
                                     f"{dict(a - b)}, missing {dict(b - a)}")
        elif tot_stale:
            ctx.violation(case2, f"observer {ri}: 'stale' totals announced without a registry: {dict(tot_stale)}")
        if out.status == "ok":
            comp = collections.Counter(norm_scope(e[2]) for e in r.events if e[0] == "completed" and e[1] == "run")
            if user_part(comp) != user_part(exp_run):
                ctx.violation(case2, f"observer {ri}: completed per scope {dict(comp)} != executed calls per scope {dict(exp_run)}")
    # observed executions of user calls and store operations agree with the announced run totals
    if out.status == "ok":
        obs = refmodel.observed(w)
        if set(obs["exec"]) != need["exec"] | extra_exec or set(obs["reads"]) != need["reads"] or set(obs["writes"]) != need["writes"]:
            ctx.violation(case2, f"executions {dict(obs['exec'])}/{dict(obs['reads'])}/{dict(obs['writes'])} differ from the needed set")
    base = recs[0].events
    for ri, r in enumerate(recs[1:], 1):
        if collections.Counter(map(repr, r.events)) != collections.Counter(map(repr, base)):
            ctx.violation(case2, f"composite member {ri} received different notifications than member 0: "
                                 f"{len(r.events)} vs {len(base)}")
        if out.mode != "real" and r.events != base:
            ctx.violation(case2, f"composite member {ri} received the notifications in a different order than member 0")


def age_process(n=4600):
    """History before the generated cases: this process has already built, run and discarded a plan with a few thousand
    distinct call functions (per-item closures), as a long-lived driver process has.  Whatever uberjob remembers about
    functions of dead plans must not leak into the account of later runs."""
    import gc

    def make(i):
        def item():
            return i
        item.__qualname__ = f"aged.item{i}"
        item.__module__ = "history"
        return item

    plan = uberjob.Plan()
    with plan.scope("aged"):
        nodes = [plan.call(make(i)) for i in range(n)]
    rec = Recorder()
    uberjob.run(plan, output=nodes, progress=Progress(lambda: rec), max_workers=2)
    del plan, nodes, rec
    gc.collect()


def run_shard(ctx):
    max_nodes = 8 if ctx.tier == "quick" else 12
    age_process()
    ctx.count("process_aged_with_4600_dead_call_functions")

    @given(cases(max_nodes))
    def test(case):
        runner.guarded(ctx, check_case, case)

    runner.drive(ctx, test, ctx.n(7200, 80000))


def replay(ctx, case):
    case = common.decode(case)
    for sc in harness.replay_schedules(case["sched"]):
        try:
            check_case(ctx, dict(case, sched=sc), record=False)
        except runner.Violation as v:
            return v.msg
    return None
