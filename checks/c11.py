"""C11 - file-backed stores replace their file atomically at every failure point."""
import os
import pathlib
import shutil
import tempfile

from hypothesis import given, strategies as st

from checks import common
from checks.c12 import JSON_VALUES, PICKLE_VALUES, TEXT_STRATS
from vlib import fsfaults, runner
from vlib.util import uncanon

ID = "C11"
LEVEL = "fault_enumeration"
SHARDS = {"quick": 8, "thorough": 16}
LEVEL_TEXT = (
    "Fault enumeration: for each generated (store class or staged_write/staged_write_path helper, str/pathlib path, previous "
    "value or none, new value incl. values whose serialisation fails part-way, encoding) a fault-free write first learns "
    "the stream of file operations (open, every write() call, close, rename); the write is then repeated with a fault "
    "before EVERY operation index k, for each fault kind in {one-shot OSError(EIO), persistent PermissionError, KeyboardInterrupt, os._exit in a forked child}. "
    "Oracle on the file system afterwards: target bytes are the complete previous or the complete new value, the modified "
    "time changed iff the new value is in place, no *.STAGING entry after an exception, and after a kill the next "
    "write+read succeeds. Exhaustive over k for every generated case; bounded in values; presence not absence."
)
LEVEL_NOTE = (
    "Faults are injected at the Python level (builtins.open, file.write/close, os.replace) before the operation takes "
    "effect; kernel-level partial writes, fsync and power loss are outside the statement."
)
TECHNIQUE = "fault enumeration at every file operation (exception and fork+os._exit) over Hypothesis-generated store/value cases; file-system state oracle"
RULE = (
    "(also: after a kill the follow-up first writes the shortest value of the domain and the target's bytes must equal a clean write's) Hypothesis draws store kind in {json, pickle, text, binary, touch, staged_write, staged_write_path}, path type, "
    "encoding, previous value (or none) and a different new value (1 in 5 with an unserialisable leaf). Every file-op index "
    "k of the fault-free write x {oserror (one-shot EIO), perm (persistent PermissionError), kbi, exit} is executed, plus a short write at every write() (effective on raw files only), a nonexistent encoding, and for every k a complete write by a second store to a neighbouring file name of the same directory (same stem / prefix / other suffix) before operation k. Non-trivial = a previous value exists and 0 < k < last. "
    "Distinct = SHA-1 of (case, k, kind)."
)
ASSUMPTIONS = ["POSIX rename atomicity (os.replace) is trusted", "single writer per path"]

KINDS = ["json", "pickle", "text", "binary", "touch", "staged_write", "staged_write_path"]
OLD_MTIME = 1_000_000_000


class Unserialisable:
    def __reduce__(self):
        raise TypeError("cannot pickle this")


@st.composite
def cases(draw):
    kind = draw(st.sampled_from(KINDS))
    enc = None
    if kind == "json":
        enc = draw(st.sampled_from([None, "utf-8", "utf-16"]))
        vals = JSON_VALUES
    elif kind == "pickle":
        vals = PICKLE_VALUES
    elif kind in ("text", "staged_write"):
        enc = draw(st.sampled_from([None, "utf-8", "latin-1"]))
        vals = TEXT_STRATS[enc]
    elif kind in ("binary", "staged_write_path"):
        vals = st.binary(max_size=40)
    else:
        vals = st.none()
    has_prev = draw(st.sampled_from([True, True, False]))
    prev = draw(vals) if has_prev else None
    new = draw(vals)
    bad = kind in ("json", "pickle") and draw(st.sampled_from([True, False, False, False, False]))
    chunks = draw(st.integers(1, 4)) if kind in ("staged_write", "staged_write_path", "text", "binary") else 1
    # the target's file name, and a neighbour in the same directory written by another store meanwhile
    name, nb = draw(st.sampled_from([("value.dat", "value.txt"), ("value.dat", "value"), ("value", "value.dat"),
                                     ("data.tar.gz", "data.tar.bz2"), ("a.b", "a.c"), ("value.dat", "other.dat"),
                                     ("value.dat", "value.dat.bak")]))
    bad_enc = None
    if kind in ("json", "text", "staged_write") and draw(st.integers(0, 9)) == 0:
        bad_enc = draw(st.sampled_from(["utf-88", "no-such-codec"]))
    return {"bad_encoding": bad_enc, "name": name, "neighbour": nb, "kind": kind, "pathlib": draw(st.booleans()), "encoding": enc, "has_prev": has_prev,
            "prev": prev, "new": new, "bad": bad, "chunks": chunks}


def make_writer(case, directory, name=None):
    """Returns (target path, write(value), read())."""
    from uberjob import stores
    from uberjob.stores import staged_write, staged_write_path

    path = os.path.join(directory, name or case.get("name", "value.dat"))
    p = pathlib.Path(path) if case["pathlib"] else path
    kind, enc = case["kind"], case["encoding"]
    if case.get("use_bad_encoding"):
        enc = case["bad_encoding"]
    if kind == "json":
        s = stores.JsonFileStore(p, encoding=enc)
    elif kind == "pickle":
        s = stores.PickleFileStore(p)
    elif kind == "text":
        s = stores.TextFileStore(p, encoding=enc)
    elif kind == "binary":
        s = stores.BinaryFileStore(p)
    elif kind == "touch":
        s = stores.TouchFileStore(p)
    else:
        s = None
    chunks = case.get("chunks", 1)
    if kind == "staged_write":
        def write(v):
            with staged_write(p, "w", encoding=enc, newline="") as f:
                step = max(1, len(v) // chunks)
                for i in range(0, max(1, len(v)), step):
                    f.write(v[i:i + step])

        def read():
            with open(path, encoding=enc, newline="") as f:
                return f.read()
        return path, write, read
    if kind == "staged_write_path":
        def write(v):
            with staged_write_path(p) as sp:
                with open(sp, "wb") as f:
                    step = max(1, len(v) // chunks)
                    for i in range(0, max(1, len(v)), step):
                        f.write(v[i:i + step])

        def read():
            with open(path, "rb") as f:
                return f.read()
        return path, write, read
    return path, s.write, s.read


def poison(value, kind):
    """The same value with an unserialisable leaf appended deep inside."""
    leaf = Unserialisable() if kind == "pickle" else object()
    if isinstance(value, list):
        return value + [[leaf]]
    if isinstance(value, dict):
        d = dict(value)
        d["zz" if kind == "json" else ("zz",)] = [1, [leaf]]
        return d
    return [value, {"k": [leaf]}] if kind == "json" else [value, (leaf,)]


def file_bytes(path):
    try:
        with open(path, "rb") as f:
            return f.read()
    except FileNotFoundError:
        return None


def staging_entries(directory, keep=("value.dat",)):
    return [n for n in os.listdir(directory) if n not in keep]


def check_case(ctx, case, record=True, only=None):
    kind = case["kind"]
    new = poison(case["new"], kind) if case["bad"] else case["new"]
    root = tempfile.mkdtemp(prefix="c11-")
    try:
        # reference bytes from fault-free writes in sibling directories
        refdir = os.path.join(root, "ref")
        os.mkdir(refdir)
        prev_bytes = None
        if case["has_prev"]:
            rp, rw, _ = make_writer(case, refdir)
            rw(case["prev"])
            prev_bytes = file_bytes(rp)
            os.remove(rp)
        new_bytes = None
        nops = None
        probe = os.path.join(root, "probe")
        os.mkdir(probe)
        pp, pw, _ = make_writer(case, probe)
        with fsfaults.Injector(probe) as inj:
            try:
                pw(new)
                ok = True
            except (TypeError, ValueError, AttributeError) as e:
                ok = False
                if not case["bad"]:
                    ctx.violation(case, f"fault-free write raised {e!r}")
        nops = inj.count
        oplog = list(inj.log)
        if ok:
            new_bytes = file_bytes(pp)
        if case["bad"] and ok:
            ctx.violation(case, "a value with an unserialisable leaf was written without error")
        if case["has_prev"] and new_bytes == prev_bytes and ok and kind != "touch":
            if record:
                ctx.exclude("new value serialises to the same bytes as the previous one")
            return
        if record:
            ctx.count("cases")
            ctx.count("file_ops", k=nops)
        # the failing-serialisation case itself (no injected fault)
        plans = [(k, fk) for k in range(nops) for fk in ("oserror", "perm", "kbi", "exit")]
        plans += [(k, "short") for k, op in enumerate(oplog) if op[1] == "write"]
        if case.get("bad_encoding"):
            plans.append((None, "bad_encoding"))
        if case["bad"]:
            plans.append((None, "serialisation"))
        if only is not None:
            # a saved case names one (operation index, fault).  If this implementation's operation stream no longer
            # has that index (an implementation is free to use more or fewer file operations), the saved case stands
            # for "this fault at any operation": replay them all rather than report a harness mismatch.
            only = tuple(only)
            if only in plans or only[1] in ("neighbour",):
                plans = [only]
            else:
                plans = [pl for pl in plans if pl[1] == only[1]]
                if only[1] == "neighbour":
                    plans = []
        for n, (k, fk) in enumerate(plans):
            d = os.path.join(root, f"t{n}")
            os.mkdir(d)
            run_one(ctx, case, d, new, prev_bytes, new_bytes, k, fk, nops, oplog, record)
            shutil.rmtree(d, ignore_errors=True)
        # another store writes a neighbouring file of the same directory between two operations of this write
        if ok and only is None or (only is not None and only[1] == "neighbour"):
            for k in ([only[0]] if only is not None and only[0] is not None and only[0] < nops else range(nops)):
                d = os.path.join(root, f"n{k}")
                os.mkdir(d)
                run_neighbour(ctx, case, d, new, prev_bytes, new_bytes, k, nops, oplog, record)
                shutil.rmtree(d, ignore_errors=True)
    finally:
        shutil.rmtree(root, ignore_errors=True)


def run_neighbour(ctx, case, d, new, prev_bytes, new_bytes, k, nops, oplog, record):
    """Before operation k of the write under test, a second store of the same kind completes a write to a
    neighbouring file name in the same directory; afterwards BOTH targets hold their complete new values and
    nothing else is left in the directory."""
    path, write, read = make_writer(case, d)
    npath, nwrite, nread = make_writer(case, d, name=case.get("neighbour", "value.txt"))
    if case["has_prev"]:
        with open(path, "wb") as f:
            f.write(prev_bytes)
    key_case = {"case": case, "k": k, "fault": "neighbour"}
    opname = oplog[k][1] if k < len(oplog) else "-"
    tag = f"[{case['kind']} neighbour {case.get('neighbour')!r} written before file op {k}/{nops} ({opname}) of {case.get('name')!r}] "
    if record:
        ctx.case(key_case, case["has_prev"] and 0 < k < nops - 1, [f"kind:{case['kind']}", "fault:neighbour", f"op:{opname}"])
    nvalue = case["prev"] if case["has_prev"] else case["new"]
    raised = None
    with fsfaults.Injector(d, {"k": k, "kind": "call", "fn": lambda: nwrite(nvalue)}) as inj:
        try:
            write(new)
        except BaseException as e:
            raised = e
    if raised is not None:
        ctx.violation(key_case, tag + f"the write raised {raised!r}")
    # reference bytes of the neighbour's value: written alone in a sibling directory
    refd = d + ".ref"
    os.mkdir(refd)
    try:
        rp, rw, _ = make_writer(case, refd, name=case.get("neighbour", "value.txt"))
        rw(nvalue)
        nbytes = file_bytes(rp)
    finally:
        shutil.rmtree(refd, ignore_errors=True)
    got, ngot = file_bytes(path), file_bytes(npath)
    if got != new_bytes:
        ctx.violation(key_case, tag + f"target holds {got!r:.100} instead of its complete new value {new_bytes!r:.80}")
    if ngot != nbytes:
        ctx.violation(key_case, tag + f"the neighbour holds {ngot!r:.100} instead of its complete value {nbytes!r:.80}")
    left = staging_entries(d, keep=(case.get("name", "value.dat"), case.get("neighbour", "value.txt")))
    if left:
        ctx.violation(key_case, tag + f"entries left behind in the directory: {left}")


def run_one(ctx, case, d, new, prev_bytes, new_bytes, k, fk, nops, oplog, record):
    if fk == "bad_encoding":
        # the store was configured with an encoding that does not exist: open() creates the file and then fails
        # while building the text layer; the write fails by exception and must leave nothing behind
        path, write, read = make_writer(dict(case, use_bad_encoding=True), d)
        if case["has_prev"]:
            with open(path, "wb") as f:
                f.write(prev_bytes)
        key_case = {"case": case, "k": None, "fault": fk}
        tag = f"[{case['kind']} with encoding {case['bad_encoding']!r}] "
        if record:
            ctx.case(key_case, case["has_prev"], [f"kind:{case['kind']}", "fault:bad_encoding"])
        try:
            write(case["new"])
        except Exception:
            pass  # (LookupError as it stands; the statement only speaks of "fails by exception")
        else:
            ctx.violation(key_case, tag + "the write did not raise although the encoding does not exist")
        if file_bytes(path) != prev_bytes:
            ctx.violation(key_case, tag + f"the target changed: {file_bytes(path)!r:.80}")
        left = staging_entries(d, keep=(case.get("name", "value.dat"),))
        if left:
            ctx.violation(key_case, tag + f"write failed (nonexistent encoding) but left entries behind: {left}")
        return
    path, write, read = make_writer(case, d)
    if case["has_prev"]:
        with open(path, "wb") as f:
            f.write(prev_bytes)
        os.utime(path, (OLD_MTIME, OLD_MTIME))
    key_case = {"case": case, "k": k, "fault": fk}
    opname = oplog[k][1] if k is not None and k < len(oplog) else "-"
    tag = f"[{case['kind']} fault={fk} at file op {k}/{nops} ({opname})] "
    if record:
        ctx.case(key_case, case["has_prev"] and k is not None and 0 < k < nops - 1,
                 [f"kind:{case['kind']}", f"fault:{fk}", f"op:{opname}", "prev" if case["has_prev"] else "no_prev"]
                 + (["unserialisable"] if case["bad"] else []))
    raised = None
    if fk == "exit":
        pid = os.fork()
        if pid == 0:
            try:
                with fsfaults.Injector(d, {"k": k, "kind": "exit"}):
                    try:
                        write(new)
                    except BaseException:
                        os._exit(3)
            finally:
                os._exit(0)
        os.waitpid(pid, 0)
    else:
        plan = None if k is None else {"k": k, "kind": fk}
        with fsfaults.Injector(d, plan) as inj:
            try:
                write(new)
            except BaseException as e:
                raised = e
        if fk == "short" and not inj.short_applied:
            if record:
                ctx.count("short_write_not_applicable(buffered file)")
        if k is not None and not inj.fired and raised is None and not case["bad"]:
            ctx.violation(key_case, tag + "harness: the planned file operation was never reached")
        if raised is None and case["bad"]:
            ctx.violation(key_case, tag + "the write did not raise although the value is unserialisable")
    got = file_bytes(path)
    if fk != "exit" and raised is None and got != new_bytes:
        # (an implementation may absorb a transient fault by retrying; then the new value must be there)
        ctx.violation(key_case, tag + f"write returned normally but the target holds {got!r:.120} instead of the complete "
                                      f"new value {new_bytes!r:.80}")
    allowed = [prev_bytes] + ([new_bytes] if new_bytes is not None else [])
    if got not in allowed:
        ctx.violation(key_case, tag + f"target holds {got!r:.120}, which is neither the complete previous value {prev_bytes!r:.80} "
                                      f"nor the complete new value {new_bytes!r:.80}")
    if case["has_prev"] and got is not None:
        changed = int(os.path.getmtime(path)) != OLD_MTIME
        if changed and got != new_bytes:
            ctx.violation(key_case, tag + "modified time changed although the new value is not in place")
        if not changed and got == new_bytes and got != prev_bytes:
            ctx.violation(key_case, tag + "new value in place but the modified time did not change")
    if fk != "exit" and raised is not None:
        left = staging_entries(d, keep=(case.get("name", "value.dat"),))
        if left:
            ctx.violation(key_case, tag + f"write failed with {type(raised).__name__} but left staging entries behind: {left}",
                          key="staging-left-when-replace-raises" if opname == "replace" else None)
    if fk == "exit":
        # a staging file left by a killed process must not disturb later writes / reads
        # (first a value whose serialised form is shorter than whatever the dead writer left, then the new value)
        from vlib.util import deep_eq
        shortest = {"json": [], "pickle": None, "text": "", "binary": b"", "touch": None}.get(case["kind"], case["new"])
        for good in (shortest, case["new"]):
            try:
                write(good)
                back = read()
            except BaseException as e:
                ctx.violation(key_case, tag + f"after the process was killed, the next write({good!r:.60})/read failed: {e!r} "
                                              f"(entries {os.listdir(d)})")
            why = deep_eq(good, back)
            if why:
                ctx.violation(key_case, tag + f"after the process was killed, the next write({good!r:.60})/read returned {back!r:.100}: {why}")
            refd = d + ".ref"
            os.mkdir(refd)
            try:
                rp, rw, _ = make_writer(case, refd)
                rw(good)
                want = file_bytes(rp)
            finally:
                shutil.rmtree(refd, ignore_errors=True)
            if file_bytes(path) != want:
                ctx.violation(key_case, tag + f"after the process was killed, the next write({good!r:.60}) left {file_bytes(path)!r:.100} "
                                              f"in the target; written into an empty directory the same value gives {want!r:.100}")


def run_shard(ctx):
    @given(cases())
    def test(case):
        runner.guarded(ctx, check_case, case)

    runner.drive(ctx, test, ctx.n(3200, 32000))


def replay(ctx, case):
    case = uncanon(case)
    only = None
    if "case" in case and "fault" in case:
        only = (case["k"], case["fault"])
        case = case["case"]
    try:
        runner.guarded(ctx, check_case, case, record=False, only=only)
    except runner.Violation as v:
        return v.msg
    return None
