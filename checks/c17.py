"""C17 - Ctrl-C during a run stops new work, waits for in-flight calls and cleans up."""
import collections
import json
import os
import subprocess
import sys
import tempfile

import uberjob
from hypothesis import given, strategies as st
from uberjob.progress import Progress

from checks import common, regcommon
from checks.c08 import up_to_date_values_ok
from checks.c15 import Recorder
from vlib import detsched, harness, refmodel, runner, specs, world

ID = "C17"
LEVEL = "fault_enumeration"
SHARDS = {"quick": 8, "thorough": 16}
LEVEL_TEXT = (
    "Fault enumeration over interrupt positions: for each generated (plan, optional registry + store state, workers, "
    "scheduler, schedule) the run is executed once to count its call starts N; it is then re-executed for EVERY k <= N "
    "with KeyboardInterrupt delivered to the calling thread while the k-th call is in flight. Under the deterministic "
    "scheduler the delivery is exact: out of the model wait the caller is blocked in (what EINTR plus the default SIGINT "
    "handler do to Condition.wait / Thread.join) or at its next eval-breaker boundary (function entry, loop back-edge, "
    "after a call) when it is runnable, e.g. while the worker pool is still starting threads; the caller's own position "
    "is schedule dependent and classified (start-up window / steady state). A real-signal variant runs subprocesses in "
    "which the k-th call does pthread_kill(main, SIGINT). Oracle: KeyboardInterrupt propagates, calls in flight end "
    "normally, no worker starts more than one further call once the caller waits for the workers, every thread exits (a "
    "deadlock verdict is a violation), the observer is exited, and the follow-up run satisfies C08's oracle. Bounded; "
    "presence not absence."
)
LEVEL_NOTE = (
    "Trusts vlib/detsched.py's model of interruptible waits; the property cannot require atomicity between delivery and "
    "the first instruction of the handler, so 'no further call' is asserted from the moment the caller starts joining its "
    "workers (at most one call per worker may already have been dequeued). Real-signal runs depend on the OS schedule and "
    "only assert facts necessary under any schedule; a time budget hit is inconclusive."
)
TECHNIQUE = "fault enumeration of interrupt delivery at every call (deterministic scheduler with asynchronous-exception injection) + real SIGINT subprocess runs"
RULE = (
    "Hypothesis draws a plan (optionally a registry world with stored nodes), workers 1..5, scheduler, optionally calls that fail on their own before or after the interrupt (any max_errors), one-node physical plans, and a schedule for "
    "the deterministic scheduler (opcode-level preemption of the calling thread). Every k in 1..N (N = call starts and "
    "store reads/writes of the uninterrupted run) is executed. Non-trivial = at delivery >= 1 call is in flight and >= 1 "
    "needed call has not started. Distinct = SHA-1 of (case, k)."
)
ASSUMPTIONS = ["a single KeyboardInterrupt per run", "call bodies end normally"]


@st.composite
def cases(draw, max_nodes):
    use_reg = draw(st.sampled_from([False, False, True]))
    g = specs.Gen(draw, registry=use_reg, opaque=False)
    n = draw(st.integers(2, max_nodes))
    while len(g.nodes) < n:
        g.add_any()
    if draw(st.sampled_from([True, False, False])):
        # a wide layer of independent calls: plenty of work is still queued when the interrupt arrives
        for _ in range(draw(st.integers(4, 8))):
            g.add({"k": "call", "args": [], "kwargs": [], "deps": [], "scope": [], "stored": False,
                   "beh": {"t": "ok"}, "side": None}, hashable=True)
    spec = {"nodes": g.nodes, "output": common.all_refs_output({"nodes": g.nodes})}
    if draw(st.integers(0, 7)) == 0:
        # the smallest run there is: one call that is itself the output (a one-node physical plan)
        spec = {"nodes": [{"k": "call", "args": [], "kwargs": [], "deps": [], "scope": [], "stored": False,
                           "beh": {"t": "ok"}, "side": None}], "output": {"n": 0}}
        use_reg = False
    cfg = {"workers": draw(st.sampled_from([1, 2, 2, 3, 4, 5])), "scheduler": draw(st.sampled_from(["default", "random", "random", None])),
           "rseed": draw(st.integers(0, 999))}
    if not use_reg and draw(st.sampled_from([True, False, False])):
        # some calls of the plan fail on their own and the run goes on (max_errors allows it): an interrupt
        # arriving later must still surface as KeyboardInterrupt
        calls = [i for i, nd in enumerate(g.nodes) if nd["k"] == "call" and nd["beh"]["t"] == "ok"]
        for i in calls:
            if draw(st.integers(0, 3)) == 0:
                g.nodes[i]["beh"] = {"t": "raise", "exc": draw(st.sampled_from(["exc", "val"])), "first": -1}
        cfg["max_errors"] = draw(st.sampled_from([None, None, 5, 1, 0, 0]))
    return {"spec": spec, "cfg": cfg, "registry": use_reg, "sched": draw(harness.schedules(det_only=True)),
            "trace_all": draw(st.sampled_from([False, False, True]))}


def run_interrupted(case, k):
    """Run with KeyboardInterrupt delivered to the caller during the k-th operation (k=None: none)."""
    spec, cfg, sc = case["spec"], case["cfg"], case["sched"]
    w = world.World(spec, registry=case["registry"], pause=detsched.pause)
    if case["registry"]:
        w.init_sources()
    rec = Recorder()
    info = {"count": 0, "delivered_at": None, "inflight": None, "phase": None, "join_at": None, "not_started": None}

    def trigger(i):
        info["count"] += 1
        if k is not None and info["count"] == k:
            s = detsched._current
            main = s.main
            started = {e[2] for e in w.events if e[1] == "start"}
            ended = {e[2] for e in w.events if e[1] in ("end", "raise")}
            info["inflight"] = sorted(started - ended)
            info["delivered_at"] = len(w.events)
            info["phase"] = phase_of(main)
            s.interrupt(main, KeyboardInterrupt())

    w.on_call_start = trigger
    orig_begin = w.op_begin

    def op_begin(kind, idx):
        r = orig_begin(kind, idx)
        if kind in ("rd", "wr"):
            trigger(("op", kind, idx))
        return r

    w.op_begin = op_begin

    def on_step(what, thread):
        s = detsched._current
        if what == "join" and s.me() is s.main and info["delivered_at"] is not None and info["join_at"] is None:
            info["join_at"] = len(w.events)

    def thunk():
        detsched._current.on_step = on_step
        return w.run(cfg, registry=case["registry"], progress=Progress(lambda: rec))

    trace_tasks = None if case.get("trace_all") else (lambda t: t.id == 0)
    out = harness.execute(thunk, sc, trace=True, trace_tasks=trace_tasks)
    return w, rec, out, info


def phase_of(main):
    fr = sys._current_frames().get(main.real.ident)
    names = []
    while fr is not None:
        names.append((fr.f_code.co_name, os.path.basename(fr.f_code.co_filename)))
        fr = fr.f_back
    if ("join", "queue.py") in names:
        return "steady"
    if any(n in ("worker_pool", "worker_thread", "thread") for n, f in names if f == "run_function_on_graph.py"):
        return "startup"
    if ("run_function_on_graph", "run_function_on_graph.py") in names:
        return "engine_other"
    return "outside_engine"


def check_k(ctx, case, k, n_ops, need_exec, record):
    w, rec, out, info = run_interrupted(case, k)
    key_case = {"case": case, "k": k}
    tag = f"[interrupt during operation {k}/{n_ops}, caller in {info['phase']}, in flight {info['inflight']}] "
    case2 = {"case": dict(case, sched=harness.with_trace(case["sched"], out)), "k": k}
    started = [e[2] for e in w.events if e[1] == "start"]
    nt = bool(info["inflight"]) and len(set(started)) < len(need_exec) if info["delivered_at"] is not None else False
    if info["delivered_at"] is not None:
        before = {e[2] for e in w.events[: info["delivered_at"]] if e[1] == "start"}
        nt = bool(info["inflight"]) and bool(need_exec - before)
    if record:
        ctx.case(key_case, nt, [f"phase:{info['phase']}", f"workers:{case['cfg']['workers']}",
                                f"scheduler:{case['cfg']['scheduler']}", "registry" if case["registry"] else "no_registry"]
                 + (["a_call_failed_before_the_interrupt"] if info["delivered_at"] is not None and any(
                     e[1] == "raise" for e in w.events[: info["delivered_at"]]) else []))
    if info["delivered_at"] is None:
        ctx.violation(case2, tag + "harness: the k-th operation was never reached")
    key = "interrupt-during-worker-startup" if info["phase"] == "startup" else None
    if out.verdict == "deadlock":
        ctx.violation(case2, tag + f"run hangs after the interrupt: no thread can run: {out.verdict_info}", key=key)
    if out.verdict:
        ctx.violation(case2, tag + f"scheduler verdict {out.verdict}", key=key)
    if out.uncaught:
        ctx.violation(case2, tag + f"exception escaped a worker thread: {out.uncaught!r}", key=key)
    if out.status != "err" or not isinstance(out.value, KeyboardInterrupt):
        ctx.violation(case2, tag + f"KeyboardInterrupt did not propagate to the caller: run gave {out.status} {out.value!r}", key=key)
    if out.alive_after:
        ctx.violation(case2, tag + f"threads created by run are still alive after it raised: {out.alive_after}", key=key)
    # calls in flight at delivery ran to completion
    ends = {e[2] for e in w.events if e[1] == "end"}
    raises = [(e[2], e[3]) for e in w.events if e[1] == "raise"]
    ends |= {e[2] for e in w.events if e[1] == "raise" and e[2] in {i for i, nd in enumerate(case["spec"]["nodes"])
                                                                    if nd["k"] == "call" and nd["beh"]["t"] == "raise"}}
    for i in info["inflight"]:
        if i not in ends:
            ctx.violation(case2, tag + f"call {i} was executing when the interrupt arrived but did not run to completion "
                                       f"(raises: {raises})", key=key)
    failing = {i for i, nd in enumerate(case["spec"]["nodes"]) if nd["k"] == "call" and nd["beh"]["t"] == "raise"}
    unexpected = [r for r in raises if r[0] not in failing]
    if unexpected:
        ctx.violation(case2, tag + f"calls raised although only the caller was interrupted: {unexpected}", key=key)
    # no further calls once the caller waits for its workers
    if info["join_at"] is not None:
        per_thread = collections.Counter(e[4] for e in w.events[info["join_at"]:] if e[1] == "start")
        if any(v > 1 for v in per_thread.values()):
            ctx.violation(case2, tag + f"after the caller began waiting for its workers, a worker started {max(per_thread.values())} "
                                       f"further calls: {[(e[1], e[2]) for e in w.events[info['join_at']:]]}", key=key)
    # observer exited exactly once, last
    evs = rec.events
    if not evs or evs[-1][0] != "exit" or sum(1 for e in evs if e[0] == "exit") != 1:
        ctx.violation(case2, tag + f"progress observer was not exited exactly once at the end: {evs[-3:]}", key=key)
    running = collections.Counter()
    for e in evs:
        if e[0] == "running":
            running[(e[1], e[2])] += 1
        elif e[0] in ("completed", "failed"):
            running[(e[1], e[2])] -= 1
    if any(running.values()):
        ctx.violation(case2, tag + f"observer: still reported running at exit: {dict((k2, v) for k2, v in running.items() if v)}", key=key)
    # stores are repairable (C08's oracle)
    if case["registry"]:
        w.on_call_start = None
        w.pause = lambda tag=None: None
        msg = up_to_date_values_ok(w, None)
        if msg:
            ctx.violation(case2, tag + "after the interrupted run: " + msg, key=key)
        w.reset_log()
        st_, val = w.run({"workers": 2}, output=case["spec"]["output"])
        if st_ != "ok":
            ctx.violation(case2, tag + f"follow-up run failed: {val!r} cause {getattr(val, '__cause__', None)!r}", key=key)

        class O:
            value = val
        msg = regcommon.check_from_scratch(w, O, {"output": case["spec"]["output"]}, tag + "follow-up run: ")
        if msg:
            ctx.violation(case2, msg, key=key)


def check_case(ctx, case, record=True, only=None):
    w0, _, out0, info0 = run_interrupted(case, None)
    has_failing = any(nd["k"] == "call" and nd["beh"]["t"] == "raise" for nd in case["spec"]["nodes"])
    if out0.verdict or (out0.status != "ok" and not (has_failing and isinstance(out0.value, uberjob.CallError))):
        ctx.violation({"case": case, "k": None}, f"uninterrupted run failed: {out0.verdict} {out0.value!r}")
    n_ops = info0["count"]
    need_exec = {e[2] for e in w0.events if e[1] == "start"}
    ks = range(1, n_ops + 1) if only is None else [only]
    if record:
        ctx.count("cases")
    for k in ks:
        check_k(ctx, case, k, n_ops, need_exec, record)


# ---------------------------------------------------------------------------
# real-signal variant

REAL_SCRIPT = r'''
import json, os, signal, sys, threading, time
import uberjob
from uberjob.progress import Progress, ProgressObserver

width, depth, workers, k, scheduler = map(lambda x: x if x in ("default", "random") else int(x), sys.argv[1:6])
events = []
lock = threading.Lock()
count = [0]
main_ident = threading.main_thread().ident

def log(*ev):
    with lock:
        events.append((time.monotonic(),) + ev)

def work(i, *deps):
    with lock:
        count[0] += 1
        mine = count[0]
    log("start", i)
    if mine == k:
        log("signal", i)
        signal.pthread_kill(main_ident, signal.SIGINT)
        time.sleep(0.3)
    else:
        time.sleep(0.02)
    log("end", i)
    return i

class Obs(ProgressObserver):
    def __enter__(self): log("enter")
    def __exit__(self, *a): log("exit")
    def increment_total(self, **k): pass
    def increment_running(self, **k): pass
    def increment_completed(self, **k): pass
    def increment_failed(self, **k): pass

plan = uberjob.Plan()
layer = [plan.call(work, (0, j)) for j in range(width)]
allnodes = list(layer)
for d in range(1, depth):
    layer = [plan.call(work, (d, j), layer[j], layer[(j + 1) % width]) for j in range(width)]
    allnodes += layer
before = set(threading.enumerate())
result = {"raised": None}
try:
    uberjob.run(plan, output=allnodes, max_workers=workers, scheduler=scheduler, progress=Progress(Obs))
except KeyboardInterrupt:
    result["raised"] = "KeyboardInterrupt"
except BaseException as e:
    result["raised"] = repr(e)
t_ret = time.monotonic()
time.sleep(0.5)
result["alive"] = [t.name for t in threading.enumerate() if t not in before]
result["events"] = [(round(t - t_ret, 4),) + tuple(map(str, ev)) for (t, *ev) in events]
result["t_ret"] = 0
print(json.dumps(result))
os._exit(0)
'''


def real_signal_runs(ctx, n):
    import random
    rng = random.Random(ctx.seed)
    d = tempfile.mkdtemp(prefix="c17-")
    path = os.path.join(d, "real_sigint.py")
    with open(path, "w") as f:
        f.write(REAL_SCRIPT)
    try:
        for _ in range(n):
            width, depth, workers = rng.randint(2, 5), rng.randint(1, 3), rng.randint(1, 4)
            total = width * depth
            k = rng.randint(1, total)
            sched = rng.choice(["default", "random"])
            case = {"real": [width, depth, workers, k, sched]}
            try:
                p = subprocess.run([sys.executable, path, str(width), str(depth), str(workers), str(k), sched],
                                   capture_output=True, text=True, timeout=60, env=dict(os.environ))
            except subprocess.TimeoutExpired:
                ctx.violation(case, f"real SIGINT during call {k} of {total} ({workers} workers, {sched}): process did not finish "
                                    f"within 60 s (run hangs or leaves a non-daemon worker)", key="interrupt-during-worker-startup")
            try:
                res = json.loads(p.stdout.strip().splitlines()[-1])
            except Exception:
                raise runner.Inconclusive(f"real-signal child produced no result: {p.stdout[-300:]} {p.stderr[-300:]}")
            evs = res["events"]
            sig_t = next((e[0] for e in evs if e[1] == "signal"), None)
            inflight = set()
            for e in evs:
                if sig_t is not None and e[0] <= sig_t:
                    if e[1] == "start":
                        inflight.add(e[2])
                    elif e[1] == "end":
                        inflight.discard(e[2])
            ctx.case(case, bool(inflight) and len([e for e in evs if e[1] == "start"]) <= total, ["real_signal", f"workers:{workers}"])
            tag = f"[real SIGINT during call {k} of {total}, {workers} workers, {sched}] "
            if res["raised"] != "KeyboardInterrupt":
                ctx.violation(case, tag + f"run did not raise KeyboardInterrupt: {res['raised']!r}")
            if res["alive"]:
                ctx.violation(case, tag + f"threads alive 0.5 s after run raised: {res['alive']}", key="interrupt-during-worker-startup")
            ended = {e[2] for e in evs if e[1] == "end"}
            if not inflight <= ended:
                ctx.violation(case, tag + f"calls in flight at the signal did not complete: {sorted(inflight - ended)}")
            late = [e for e in evs if e[1] == "start" and e[0] > 0]
            if late:
                ctx.violation(case, tag + f"calls started after run had raised: {late}")
            if not any(e[1] == "exit" for e in evs):
                ctx.violation(case, tag + "observer was not exited")
            started_after = [e for e in evs if e[1] == "start" and sig_t is not None and e[0] > sig_t + 0.25]
            if len(started_after) > workers:
                ctx.violation(case, tag + f"{len(started_after)} calls started more than 0.25 s after the signal")
    finally:
        import shutil
        shutil.rmtree(d, ignore_errors=True)


def run_shard(ctx):
    max_nodes = 7 if ctx.tier == "quick" else 10

    @given(cases(max_nodes))
    def test(case):
        runner.guarded(ctx, check_case, case)

    runner.drive(ctx, test, ctx.n(600, 10000))
    real_signal_runs(ctx, 1 if ctx.tier == "quick" else 6)


def replay(ctx, case):
    case = common.decode(case)
    if "real" in case:
        return None
    only = case.get("k")
    inner = case["case"] if "case" in case else case
    for sc in harness.replay_schedules(inner["sched"], attempts=10):
        try:
            check_case(ctx, dict(inner, sched=sc), record=False, only=only)
        except runner.Violation as v:
            return v.msg
    return None
