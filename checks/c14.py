"""C14 - a dry run touches nothing and returns a faithful, self-contained physical plan."""
import uberjob
from hypothesis import given, strategies as st

from checks import common, regcommon
from vlib import refmodel, runner, world
from vlib.specs import vdiff

ID = "C14"
LEVEL = "exploration"
SHARDS = {"quick": 8, "thorough": 16}
LEVEL_TEXT = (
    "Generated registry worlds and histories (as C03) produce reachable store states; the state is cloned into a twin "
    "world built from the same spec. World A: dry run (event log must contain modified-time queries only), then the "
    "returned physical plan is executed by itself with no registry; world B: the real run. Differential oracle: equal "
    "multisets of call executions, store reads and writes, equal output, equal final store contents. Bounded; presence "
    "not absence."
)
LEVEL_NOTE = "Twin-world cloning of in-memory logical stores; the comparison is differential (dry-run plan vs real run), plus an absolute 'nothing but modified-time queries' invariant."
TECHNIQUE = "differential property-based testing (dry-run physical plan executed alone vs real run on a cloned world) over generated histories"
RULE = (
    "(also: pure sources backed by a logging subclass of the bundled LiteralSource) Hypothesis draws a registry world + history (also sources created through another registry, flaky modified-time queries under a retry policy, and a file-backed family whose directory holds leftovers; half of the cases execute the returned plan with an independent sequential interpreter of the documented graph model); the last run of the history is the compared run (optionally with a transform_physical callback: copying or in-place, adding a call, wrapping the output; any output, "
    "fresh_time, workers, scheduler). Oracle: dry run logs only modified-time queries and returns (Plan, Node|None); "
    "run(physical_plan, output=all its nodes) on world A performs the same multiset of calls/reads/writes and yields "
    "the same output (element at the output node) and the same final store values as the real run on the cloned world B. "
    "Non-trivial = the compared run performs >= 1 store write and >= 1 store read. Distinct = SHA-1 of the case."
)
ASSUMPTIONS = ["store state cloned (not replayed) into the twin world: write order, hence times, is schedule dependent"]


def check_case(ctx, case, record=True):
    spec = case["spec"]
    if record:
        ctx.count(*["world:" + c for c in regcommon.spec_classes(spec)])
    a = world.World(spec, registry=True)
    a.init_sources()
    ops = case["ops"]
    for op in ops[:-1]:
        if op["op"] == "update":
            a.set_source(op["src"])
        elif op["op"] == "delete":
            a.delete(op["entry"])
        else:
            regcommon.run_op(a, op)
    op = ops[-1]
    b = world.World(spec, registry=True)
    b.restore(a.snapshot())
    ft = regcommon.fresh_tick(a, op)
    cfg = dict(op["cfg"])
    if ft is not None:
        cfg["fresh"] = ft
    # a source created through another registry is never transformed: executing it fails.  With max_errors=None
    # every call without a failed dependency still runs, so the two executions remain comparable.
    has_foreign = any(nd.get("foreign") for nd in spec["nodes"])
    if has_foreign:
        cfg["max_errors"] = None
    # modified-time queries that fail on their first attempt(s) while the caller asked for retries: the dry run is
    # given the same retry policy as the real run and must get through the stale check just the same
    flaky = case.get("flaky_mt")
    if flaky:
        cfg["retry"] = flaky["retry"]
        ent_calls = [i for i in sorted(refmodel.entries(spec)) if spec["nodes"][i]["k"] != "lit"]
        for w_ in (a, b):
            w_.flaky_ops = {("mt", i): flaky["fails"] for i in ent_calls[:: flaky["step"]]}
    # world A: dry run
    a.reset_log()
    tkind = case.get("transform")
    xkw = {"transform_physical": a.transform(tkind)} if tkind else {}
    st_, res = a.run(cfg, output=op.get("output"), dry_run=True, **xkw)
    tag = f"[{regcommon.describe(op)}] "
    if st_ != "ok":
        ctx.violation(case, tag + f"dry run raised {res!r} (cause {getattr(res, '__cause__', None)!r})")
    bad = [(e[1], e[2]) for e in a.events if not e[1].startswith("mt_")]
    if bad:
        ctx.violation(case, tag + f"dry run touched calls/stores: {bad[:8]}")
    if not (isinstance(res, tuple) and len(res) == 2 and isinstance(res[0], uberjob.Plan)
            and (res[1] is None or isinstance(res[1], uberjob.graph.Node))):
        ctx.violation(case, tag + f"dry run returned {res!r}, expected (Plan, Node or None)")
    pplan, out_node = res
    no_output = op.get("output") is None or op["output"] == {"c": None}
    if no_output != (out_node is None):
        ctx.violation(case, tag + f"dry run output node is {out_node!r} for requested output {op.get('output')!r}")
    if out_node is not None and out_node not in pplan.graph:
        ctx.violation(case, tag + "dry run's output node is not part of the returned physical plan")
    nodes = list(pplan.graph.nodes())
    a.reset_log()
    # "executing all nodes of that plan by itself": half of the cases through an independent sequential
    # interpreter of the documented graph model, the other half through uberjob.run without a registry
    independent = cfg.get("rseed", 0) % 2 == 0 or has_foreign
    if independent:
        from vlib import physexec
        vals, failures = physexec.execute(pplan)
        val_a = [vals.get(n) for n in nodes]
        err_a = None
        if failures:
            err_a = uberjob.CallError(failures[0][0])
            err_a.__cause__ = failures[0][1]
    else:
        with world.seeded_random(cfg.get("rseed", 0)):
            try:
                val_a = uberjob.run(pplan, output=nodes, progress=None, max_workers=cfg.get("workers"),
                                    scheduler=cfg.get("scheduler"))
                err_a = None
            except BaseException as e:
                val_a, err_a = None, e
    obs_a = refmodel.observed(a)
    a.flaky_ops = {}
    # world B: the real run
    b.reset_log()
    xkw = {"transform_physical": b.transform(tkind)} if tkind else {}
    st_b, val_b = b.run(cfg, output=op.get("output"), **xkw)
    obs_b = refmodel.observed(b)
    if record:
        nt = bool(obs_b["writes"]) and bool(obs_b["reads"])
        ctx.case(case, nt, ["writes" if obs_b["writes"] else "no_writes", "reads" if obs_b["reads"] else "no_reads",
                            "output" if out_node is not None else "no_output", f"transform:{tkind}"]
                 + (["foreign_source"] if has_foreign else []) + (["independent_executor"] if independent else ["executed_by_run"])
                 + (["foreign_source_needed"] if has_foreign and st_b != "ok" else []))
    both_fail = False
    if has_foreign and (st_b != "ok" or err_a is not None):
        # legitimate only as CallError caused by the untransformed source, and then on both sides
        for what, e in (("real run", val_b if st_b != "ok" else None), ("physical plan", err_a)):
            if e is None:
                ctx.violation(case, tag + f"the {what} succeeded although the other execution failed on the untransformed source")
            if not isinstance(e, uberjob.CallError) or type(e.__cause__).__name__ != "NotTransformedError":
                ctx.violation(case, tag + f"the {what} raised {e!r} (cause {getattr(e, '__cause__', None)!r})")
        both_fail = True
    elif st_b != "ok":
        ctx.violation(case, tag + f"real run failed: {val_b!r}")
    elif err_a is not None:
        ctx.violation(case, tag + f"executing the dry run's physical plan by itself raised {err_a!r} (cause {err_a.__cause__!r})")
    for key in ("exec", "reads", "writes"):
        if obs_a[key] != obs_b[key]:
            ctx.violation(case, tag + f"{key}: physical plan performed {dict(obs_a[key])}, real run {dict(obs_b[key])}")
    if obs_a["mt"]:
        ctx.violation(case, tag + f"executing the physical plan queried modified times: {dict(obs_a['mt'])}")
    if out_node is not None and not both_fail:
        got = val_a[nodes.index(out_node)]
        d = vdiff(val_b, got)
        if d:
            ctx.violation(case, tag + f"output of the physical plan {got!r} differs from the real run's {val_b!r}: {d}")
    for i in a.stores:
        d = vdiff(b.stores[i].value, a.stores[i].value)
        if d:
            ctx.violation(case, tag + f"store {i}: physical plan left {a.stores[i].value!r}, real run {b.stores[i].value!r}")


def run_shard(ctx):
    max_nodes, max_ops = (8, 4) if ctx.tier == "quick" else (12, 7)

    @given(regcommon.reg_cases(max_nodes=max_nodes, max_ops=max_ops, det_share=0, disturb_last=True, alias=True, sread=True, foreign=True),
           st.sampled_from([None, None, None, "copy", "copy_add", "copy_wrap", "inplace_add", "inplace_wrap"]))
    def test(case, tkind):
        case = dict(case, transform=tkind)
        if case["ops"][-1]["cfg"].get("rseed", 0) % 5 == 0:
            r = case["ops"][-1]["cfg"]["rseed"]
            case["flaky_mt"] = {"retry": 2 + r % 2, "fails": 1, "step": 1 + (r // 5) % 2}
        runner.guarded(ctx, check_case, case)

    runner.drive(ctx, test, ctx.n(8000, 80000))
    from checks import c14_files
    c14_files.run(ctx)


def replay(ctx, case):
    case = common.decode(case)
    if case.get("kind") == "files":
        from checks import c14_files
        return c14_files.replay(ctx, case)
    for _ in range(3):
        try:
            check_case(ctx, case, record=False)
        except runner.Violation as v:
            return v.msg
    return None
