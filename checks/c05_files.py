"""C05, file-backed variant: the same histories and the same out-of-date / needed-set oracle, but every store is one of
uberjob's bundled file stores (pickle, text, binary, JSON) in a scratch directory, so the modified times the staleness
logic sees are the ones those stores really produce when they are (re)written."""
import shutil
import tempfile

from hypothesis import given, strategies as st

from checks import regcommon
from vlib import fileworld, refmodel, runner

KIND_NAMES = sorted(fileworld.KINDS)


@st.composite
def cases(draw, max_nodes, max_ops):
    base = draw(regcommon.reg_cases(max_nodes=max_nodes, max_ops=max_ops, faults=False, det_share=0, min_runs=2,
                                  late=False, falsy=False, hoistable=False))
    uniform = draw(st.sampled_from([None, None] + KIND_NAMES))
    kinds = {str(i): uniform or draw(st.sampled_from(KIND_NAMES)) for i in sorted(refmodel.entries(base["spec"]))}
    return {"kind": "files", "case": base, "kinds": kinds}


def check_case(ctx, fcase, record=True):
    from checks import c05
    root = tempfile.mkdtemp(prefix="c05f-")
    try:
        with fileworld.StampingInjector(root):
            used = sorted(set(fcase["kinds"].values()))

            def make_world(spec):
                return fileworld.FileWorld(spec, root, kinds=fcase["kinds"])

            try:
                c05.check_case(ctx, fcase["case"], record=record, make_world=make_world,
                               extra_classes=["file_stores"] + ["file_store:" + k for k in used])
            except runner.Violation as v:
                msg = "[file-backed stores " + str(fcase["kinds"]) + "] " + v.msg
                if ctx.violations and ctx.violations[-1]["msg"] == v.msg:
                    ctx.violations[-1].update(case=runner.canon(fcase), msg=msg)  # the replay unit is the file case
                raise runner.Violation(fcase, msg) from None
    finally:
        shutil.rmtree(root, ignore_errors=True)


def run(ctx):
    max_nodes, max_ops = (7, 5) if ctx.tier == "quick" else (10, 8)

    @given(cases(max_nodes, max_ops))
    def test(fcase):
        runner.guarded(ctx, check_case, fcase)

    runner.drive(ctx, test, ctx.n(600, 12000))


def replay(ctx, fcase):
    for _ in range(3):
        try:
            runner.guarded(ctx, check_case, fcase, record=False)
        except runner.Violation as v:
            return v.msg
    return None
