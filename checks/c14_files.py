"""C14, file-backed variant: a dry run over bundled file stores leaves the stores' directory exactly as it was -
including leftovers of killed writers (*.STAGING) and files of other programs."""
import hashlib
import os
import shutil
import tempfile

from hypothesis import given, strategies as st

from checks import regcommon
from checks.c08_files import apply_prefix
from vlib import fileworld, runner


def dirsnap(d):
    out = {}
    for n in sorted(os.listdir(d)):
        p = os.path.join(d, n)
        s = os.stat(p)
        with open(p, "rb") as f:
            h = hashlib.sha1(f.read()).hexdigest()
        out[n] = (s.st_size, s.st_mtime_ns, h)
    return out


def check_case(ctx, case, record=True):
    spec = case["spec"]
    op = case["ops"][-1]
    root = tempfile.mkdtemp(prefix="c14f-")
    try:
        sdir = os.path.join(root, "state")
        os.mkdir(sdir)
        with fileworld.StampingInjector(sdir):
            w = fileworld.FileWorld(spec, sdir)
            apply_prefix(w, case)
        planted = []
        for i in sorted(w.stores):
            if i % 2 == case.get("plant", 0) % 2:
                p = os.path.join(sdir, f"n{i}.pkl.STAGING")
                with open(p, "wb") as f:
                    f.write(b"partial write of a killed process")
                planted.append(os.path.basename(p))
        with open(os.path.join(sdir, "NOTES.txt"), "w") as f:
            f.write("somebody else's file")
        before = dirsnap(sdir)
        w2 = fileworld.FileWorld(spec, sdir)
        cfg = dict(op["cfg"])
        ft = regcommon.fresh_tick(w2, op)
        if ft is not None:
            cfg["fresh"] = ft
        st_, res = w2.run(cfg, output=op.get("output"), dry_run=True)
        after = dirsnap(sdir)
        key_case = {"kind": "files", "case": case}
        if record:
            ctx.case(key_case, bool(planted) and len(w.stores) >= 2, ["files", "staging_leftovers" if planted else "no_leftovers"])
        tag = f"[file-backed dry run, leftovers {planted}] "
        if st_ != "ok":
            ctx.violation(key_case, tag + f"dry run raised {res!r} (cause {getattr(res, '__cause__', None)!r})")
        bad = [(e[1], e[2]) for e in w2.events if not e[1].startswith("mt_")]
        if bad:
            ctx.violation(key_case, tag + f"dry run touched calls/stores: {bad[:8]}")
        if before != after:
            gone = sorted(set(before) - set(after))
            new = sorted(set(after) - set(before))
            changed = sorted(n for n in before if n in after and before[n] != after[n])
            ctx.violation(key_case, tag + f"the stores' directory changed during the dry run: removed {gone}, added {new}, modified {changed}")
    finally:
        shutil.rmtree(root, ignore_errors=True)


def run(ctx):
    @given(regcommon.reg_cases(max_nodes=7, max_ops=3, faults=False, det_share=0, disturb_last=True), st.integers(0, 1))
    def test(case, plant):
        runner.guarded(ctx, check_case, dict(case, plant=plant))

    runner.drive(ctx, test, ctx.n(240, 3000))


def replay(ctx, case):
    try:
        runner.guarded(ctx, check_case, case["case"], record=False)
    except runner.Violation as v:
        return v.msg
    return None
