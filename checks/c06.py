"""C06 - nothing downstream of a failed call runs; the raised error names a real failure."""
import uberjob
from hypothesis import given, strategies as st

from checks import common, regcommon
from vlib import harness, refmodel, runner, specs, world

ID = "C06"
LEVEL = "exploration"
SHARDS = {"quick": 8, "thorough": 16}
LEVEL_TEXT = (
    "Generated-input search over (plan, failing subset with Exception and BaseException subclasses incl. "
    "KeyboardInterrupt/SystemExit raised in workers, failing store reads/writes, max_errors, workers, scheduler, schedule) "
    "with harness-owned schedules (deterministic scheduler, opcode-level preemption in the engine) and real threads. "
    "Oracle over the event log and the raised exception: no start below a failed call, CallError raised iff something "
    "failed, .call is a node that logged a raise in this run, __cause__ is the very exception object, first failure with "
    "one worker. Bounded; presence not absence."
)
LEVEL_NOTE = "Trusts vlib/detsched.py; failures are injected by harness call functions / stores that log the exception object they raise."
TECHNIQUE = "property-based fault-pattern testing with harness-owned schedules; event-log invariant + exception identity oracle"
RULE = (
    "Hypothesis draws a plan (optionally with registry and stored nodes), a subset of always-failing calls "
    "(BoomError/ValueError/BaseException subclass/KeyboardInterrupt/SystemExit), optionally an injected store-operation "
    "fault, max_errors in {0,None,1,2,5}, workers 1..nodes+3, scheduler, schedule. Oracle: no call starts if a transitive "
    "predecessor raised; run raises CallError iff some call/store operation raised (never returns a value then); "
    "CallError.call is the plan node (or a store read/write call of the right kind) that logged a raise in this run; "
    "__cause__ is that logged exception object (identity); with one worker it is the first logged failure. Non-trivial = "
    "a failing call that executed and has >= 1 descendant in the needed set. Distinct = SHA-1 of the case."
)
ASSUMPTIONS = ["retry disabled here (C10 covers retry)"]


@st.composite
def cases(draw, max_nodes):
    use_reg = draw(st.sampled_from([False, False, True]))
    serial_many = not use_reg and draw(st.sampled_from([True, False, False, False]))
    if use_reg:
        g = specs.Gen(draw, registry=True, opaque=False, failures=draw(st.sampled_from([0, 3, 6])), lits=2, late=True, exotic=True)
        n = draw(st.integers(2, max_nodes))
        while len(g.nodes) < n:
            g.add_any()
        spec = {"nodes": g.nodes, "output": g.output()}
    else:
        spec = draw(specs.plan_specs(max_nodes=max_nodes, min_nodes=2, opaque=False, lits=2, exotic=True,
                                     failures=8 if serial_many else draw(st.sampled_from([3, 5, 8]))))
        if draw(st.booleans()):
            spec["output"] = common.all_refs_output(spec, lits=draw(st.booleans()))
    specs.use_dependent_literals(draw, spec["nodes"])
    cfg = draw(specs.run_configs(nodes=len(spec["nodes"]), max_errors=True))
    if serial_many:
        cfg["workers"] = 1
        cfg["max_errors"] = draw(st.sampled_from([None, 2, 5, 3]))
    case = {"spec": spec, "cfg": cfg, "sched": draw(harness.schedules()), "registry": use_reg}
    if use_reg and draw(st.booleans()):
        case["fault"] = {"k": draw(st.integers(0, 20)), "mode": draw(st.sampled_from(["before", "after", "base"]))}
    return case


def check_case(ctx, case, record=True):
    spec, cfg = case["spec"], case["cfg"]
    sc = case["sched"]
    w = world.World(spec, registry=case["registry"], pause=harness.pause_for(sc))
    if case["registry"]:
        w.init_sources()
    if case.get("fault"):
        w.fault = dict(case["fault"])
    out = harness.execute(lambda: w.run(cfg, registry=case["registry"]), sc)
    case2 = dict(case, sched=harness.with_trace(sc, out))
    nodes = spec["nodes"]
    raised_calls = [e[2] for e in w.events if e[1] == "raise"]
    raised_ops = [(e[1], e[2]) for e in w.events if e[1] in ("rd_raise", "wr_raise", "mt_raise")]
    fault_mt = [e for e in w.events if e[1] == "fault" and e[3][0] == "mt"]
    started = [e[2] for e in w.events if e[1] == "start"]
    anything_failed = bool(raised_calls or raised_ops or fault_mt)
    # a store fault "before" is raised from op_begin: logged as 'fault' (not *_raise)
    faults = [e for e in w.events if e[1] == "fault"]
    if any(e[3][0] == "mt" and nodes[e[2]]["k"] == "lit" for e in faults):
        # out of the statement's domain: a failing modified-time query on a registered *Literal* is
        # not a call that raised (uberjob reports it as AttributeError; see DESIGN.md, C19 notes)
        if record:
            ctx.exclude("mt_fault_on_registered_literal")
        return
    need_desc = False
    for i in set(raised_calls):
        desc = [j for j in range(len(nodes)) if i in specs.strict_ancestors(spec, j)]
        if desc:
            need_desc = True
    if record:
        cl = common.sched_classes(case, out) + [f"status:{out.status}", f"max_errors:{cfg.get('max_errors')}",
                                                "registry" if case["registry"] else "no_registry"]
        excs = {nodes[i]["beh"].get("exc") for i in set(raised_calls) if nodes[i]["beh"]["t"] == "raise"}
        cl += [f"raised:{x}" for x in sorted(x for x in excs if x)]
        if faults:
            cl.append("store_fault")
        ctx.case(case, need_desc, cl)
    if out.verdict or out.uncaught:
        ctx.violation(case2, f"scheduler verdict {out.verdict} {out.verdict_info}; uncaught={out.uncaught!r}")
    # 1. nothing downstream of a failure starts
    failed = set()
    for seq, kind, idx, extra, _ in w.events:
        if kind == "raise":
            failed.add(idx)
        elif kind == "start":
            bad = specs.strict_ancestors(spec, idx) & failed
            if bad:
                ctx.violation(case2, f"call {idx} started although its dependencies {sorted(bad)} had raised; "
                                     f"log={[(e[1], e[2]) for e in w.events[:seq + 1]]}")
    # 2. CallError iff something failed
    if anything_failed or faults:
        if out.status == "ok":
            ctx.violation(case2, f"calls/operations raised ({raised_calls}, {raised_ops}, faults={[(e[2], e[3]) for e in faults]}) "
                                 f"but run returned normally with {out.value!r}")
        e = out.value
        if not isinstance(e, uberjob.CallError):
            ctx.violation(case2, f"run raised {type(e).__name__}: {e} instead of CallError "
                                 f"(raised calls {raised_calls}, ops {raised_ops})")
        cause = e.__cause__
        all_raised = [x for lst in w.raised.values() for x in lst]
        if not any(cause is x for x in all_raised):
            ctx.violation(case2, f"CallError.__cause__ {cause!r} is not one of the exception objects raised in this run {all_raised!r}")
        key = next(k for k, lst in w.raised.items() if any(cause is x for x in lst))
        call = e.call
        if key[0] == "call":
            idx = w.index_of.get(call)
            if idx != key[1]:
                ctx.violation(case2, f"CallError.call is {call!r} (spec node {idx}) but the cause was raised by call {key[1]}")
            if cfg["workers"] == 1 and not raised_ops and not faults and raised_calls and raised_calls[0] != idx:
                ctx.violation(case2, f"with one worker the first failure was call {raised_calls[0]} but CallError names call {idx}")
        else:
            want = {"rd": world.LogicalStore.read, "wr": world.LogicalStore.write}.get(key[0])
            if want is not None and getattr(call, "fn", None) is not want:
                ctx.violation(case2, f"cause was raised by store op {key} but CallError.call.fn is {getattr(call, 'fn', None)!r}")
    else:
        if out.status != "ok":
            ctx.violation(case2, f"nothing failed but run raised {out.value!r} (cause {getattr(out.value, '__cause__', None)!r})")


def run_shard(ctx):
    max_nodes = 8 if ctx.tier == "quick" else 14

    @given(cases(max_nodes))
    def test(case):
        runner.guarded(ctx, check_case, case)

    runner.drive(ctx, test, ctx.n(9600, 120000))


def replay(ctx, case):
    case = common.decode(case)
    for sc in harness.replay_schedules(case["sched"]):
        try:
            check_case(ctx, dict(case, sched=sc), record=False)
        except runner.Violation as v:
            return v.msg
    return None
