"""C13 - run, dry_run and render never modify the Plan or Registry they are given."""
import threading

import uberjob
from hypothesis import given, strategies as st

from checks import common, regcommon
from vlib import harness, refmodel, runner, specs, world
from vlib.specs import vdiff

ID = "C13"
LEVEL = "exploration"
SHARDS = {"quick": 8, "thorough": 16}
LEVEL_TEXT = (
    "Generated registry worlds and action sequences (successful run, run failing in the stale check, run failing in the "
    "execution phase, dry run, render with/without registry/level/predicate, mutation of Plan.copy()/Registry.copy(), "
    "4 real threads running the same plan concurrently); a structural snapshot of the caller's Plan and Registry (node "
    "identities in order, per-node scope/fn/value/stack_frame identity, edge multiset with keys, attribute dicts, "
    "Plan scope, registry mapping) must be identical before and after every action, and concurrent results must equal "
    "the sequential result. Bounded; presence not absence."
)
LEVEL_NOTE = "The snapshot covers everything reachable through the public attributes of Plan/Registry/Node; render uses graphviz 'dot' with format='svg'."
TECHNIQUE = "property-based testing: before/after structural snapshot invariant over generated action sequences, incl. concurrent real-thread runs"
RULE = (
    "(also: Registry.source histories over a registry/plan and their copies; 2-3 concurrent dry runs on model threads preempted inside the registry transformation, each compared with the dry run alone; the Registry's keys/values/items/iter/len/in/get views after every action) Hypothesis draws a registry world (also: registry stores passed as plain arguments, a placeholder of another registry given a store through registry.add, a registry shared with another plan) and 1..5 actions from {run ok, run with injected fault at op k (stale-check or run "
    "phase), dry run, render(registry?, level?, predicate?), mutate a copy, mutate the original after copying, 4 "
    "concurrent runs}. Oracle: snapshot(before) == snapshot(after) for plan and registry after every action; copies and "
    "originals do not see each other's mutations; concurrent results equal the sequential one. Non-trivial = the action "
    "transforms the plan (non-empty registry or structured output) and is not the plain success path, or is concurrent. "
    "Distinct = SHA-1 of (case, action index)."
)
ASSUMPTIONS = ["concurrent runs use registry-less plans or registries whose stores are all fresh (read-only runs)"]

ACTIONS = ["run", "run", "failrun", "failrun", "dry", "render", "copy_mut", "orig_mut", "concurrent", "run_noreg", "run_foreign", "source_hist", "det_concurrent"]


@st.composite
def cases(draw, max_nodes):
    base = draw(regcommon.reg_cases(max_nodes=max_nodes, max_ops=1, faults=False, det_share=0, store_args=True,
                                  alias=True, foreign=True))
    g_out = [op.get("output") for op in base["ops"] if op["op"] == "run"]
    n = draw(st.integers(1, 4))
    acts = []
    for _ in range(n):
        k = draw(st.sampled_from(ACTIONS))
        a = {"a": k, "cfg": draw(specs.run_configs(nodes=len(base["spec"]["nodes"]))),
             "output": draw(st.sampled_from(g_out))}
        if k == "failrun":
            a["fault"] = {"k": draw(st.integers(0, 12)), "mode": draw(st.sampled_from(["before", "after", "base"]))}
        if k == "det_concurrent":
            a["sched"] = draw(harness.schedules(det_only=True))
            a["n"] = draw(st.sampled_from([2, 2, 3]))
            a["stale"] = draw(st.sampled_from(["as_is", "delete_some", "fresh"]))
        if k == "source_hist":
            a["hist"] = draw(st.lists(st.tuples(st.integers(0, 1), st.integers(0, 1), st.integers(0, 1)).map(list),
                                      min_size=2, max_size=5))
        if k == "render":
            a["registry"] = draw(st.booleans())
            a["level"] = draw(st.sampled_from([None, 0, 1, 2]))
            a["predicate"] = draw(st.booleans())
        acts.append(a)
    return {"spec": base["spec"], "acts": acts}


def snapshot(plan, registry):
    g = plan.graph
    keep = []
    nodes = []
    for n in g.nodes():
        keep.append(n)
        scope = getattr(n, "scope", ("<no scope attribute>",))
        item = [id(n), type(n).__name__, scope, tuple(id(x) for x in scope)]
        for attr in ("fn", "value", "stack_frame"):
            if hasattr(n, attr):
                v = getattr(n, attr)
                keep.append(v)
                item.append((attr, id(v)))
        item.append(tuple(sorted(g.nodes[n].items())))
        nodes.append(tuple(item))
    edges = []
    for u, v, k, d in g.edges(keys=True, data=True):
        keep.append(k)
        edges.append((id(u), id(v), type(k).__name__, getattr(k, "index", None), getattr(k, "name", None),
                      tuple(sorted(d.items()))))
    edges.sort(key=repr)
    reg = None
    if registry is not None:
        reg = []
        for n, rv in registry.mapping.items():
            keep.extend([rv, rv.value_store, rv.stack_frame])
            reg.append((id(n), id(rv), id(rv.value_store), rv.is_source, id(rv.stack_frame)))
    return {"nodes": nodes, "edges": edges, "scope": plan._scope, "gattr": dict(g.graph), "registry": reg,
            "_keep": keep}


def diff_snap(a, b):
    for k in ("nodes", "edges", "scope", "gattr", "registry"):
        if a[k] != b[k]:
            if isinstance(a[k], list) and isinstance(b[k], list):
                sa, sb = set(map(repr, a[k])), set(map(repr, b[k]))
                return f"{k} changed: removed {sorted(sa - sb)[:3]} added {sorted(sb - sa)[:3]} (order/len {len(a[k])}->{len(b[k])})"
            return f"{k} changed: {a[k]!r} -> {b[k]!r}"
    return None


def check_case(ctx, case, record=True):
    spec = case["spec"]
    w = world.World(spec, registry=True)
    w.init_sources()
    has_foreign = any(nd.get("foreign") for nd in spec["nodes"])
    for n, act in enumerate(case["acts"]):
        k = act["a"]
        if k == "concurrent" and has_foreign:
            k = "run"  # runs over an untransformed source fail; the concurrent action asserts equal results
        tag = f"[action {n}: {k} output={act.get('output')} cfg={act['cfg']}] "
        before = snapshot(w.plan, w.registry)
        transforms = bool(w.registry.mapping) or (act.get("output") is not None and "c" not in act["output"])
        nt = (transforms and k not in ("run", "run_noreg")) or k in ("concurrent", "det_concurrent")
        if record:
            ctx.case({"case": case, "action": n}, nt, ["action:" + k])
        w.reset_log()
        if k in ("run", "failrun", "run_noreg"):
            if k == "failrun":
                w.fault = dict(act["fault"])
            has_src = any(nd["k"] == "src" for nd in spec["nodes"])
            w.run(act["cfg"], output=act["output"], registry=(k != "run_noreg"))
            w.fault = None
            w.dead = False
            if record and k == "failrun":
                phase = "none"
                for e in w.events:
                    if e[1] == "fault":
                        phase = "stale_check" if e[3][0] == "mt" else "run_phase"
                ctx.count("fault_phase:" + phase)
        elif k == "dry":
            st_, res = w.run(act["cfg"], output=act["output"], dry_run=True)
            if st_ == "ok":
                # the returned physical plan must be a different object graph
                if res[0] is w.plan or res[0].graph is w.plan.graph:
                    ctx.violation(case, tag + "dry run returned the caller's own Plan/graph object")
                if act["cfg"].get("rseed", 0) % 2 == 0:
                    # the (plan, node) pair a dry run returns can be handed to render as it is; the plan in the
                    # pair is then the caller's plan, and render must leave it as it was
                    snap_res = snapshot(res[0], None)
                    try:
                        uberjob.render(res, format="svg")
                    except Exception:
                        if record:  # not a modification: outside this statement, but visible in the evidence
                            ctx.count("render_of_dry_run_result_raised")
                    d = diff_snap(snap_res, snapshot(res[0], None))
                    if d:
                        ctx.violation(case, tag + f"render((plan, node)) of a dry run's result modified the plan it was given: {d}")
        elif k == "render":
            kw = {"format": "svg"}
            if act["registry"]:
                kw["registry"] = w.registry
            if act["level"] is not None:
                kw["level"] = act["level"]
            if act["predicate"]:
                kw["predicate"] = lambda u, d: type(u).__name__ != "Literal"
            target = w.plan
            if act["cfg"].get("rseed", 0) % 2 == 0:
                # the pair form (plan, output node or None)
                out_obj, _ = w.output_obj(act["output"]) if act.get("output") is not None else (None, None)
                target = (w.plan, out_obj if isinstance(out_obj, uberjob.graph.Node) else None)
            try:
                uberjob.render(target, **kw)
            except Exception:
                if record:  # whether render succeeds is outside this statement (it must not modify anything)
                    ctx.count("render_raised")
        elif k == "copy_mut":
            p2, r2 = w.plan.copy(), w.registry.copy()
            mutate(p2, r2)
        elif k == "orig_mut":
            # mutate a throw-away original; its earlier copy must stay as it was
            w2 = world.World(spec, registry=True)
            p2, r2 = w2.plan.copy(), w2.registry.copy()
            snap_copy = snapshot(p2, r2)
            mutate(w2.plan, w2.registry)
            d = diff_snap(snap_copy, snapshot(p2, r2))
            if d:
                ctx.violation(case, tag + f"a copy changed when its original was mutated: {d}")
        elif k == "source_hist":
            # a registry and its copy (and a plan and its copy) used side by side: Registry.source(plan, store)
            # registers the node it returns in the registry AND the plan it was called with, and in no other
            w2 = world.World(spec, registry=True)
            regs = [w2.registry, w2.registry.copy()]
            plans = [w2.plan, w2.plan.copy()]
            pool = [world.LogicalStore(w2, 990), world.LogicalStore(w2, 991)]
            for step, (ri, pi, si) in enumerate(act["hist"]):
                other = regs[1 - ri]
                keys_other = set(other.mapping)
                nodes_other = set(plans[1 - pi].graph.nodes())
                node = regs[ri].source(plans[pi], pool[si])
                where = tag + f"history {act['hist'][:step + 1]} (registry, plan, store): "
                if node not in regs[ri] or regs[ri].get(node) is not pool[si]:
                    ctx.violation(case, where + "the node returned by Registry.source is not registered, with the given "
                                                "store, in the registry it was called on")
                if not plans[pi].graph.has_node(node):
                    ctx.violation(case, where + "the node returned by Registry.source is not in the plan it was called with")
                if set(plans[1 - pi].graph.nodes()) != nodes_other:
                    ctx.violation(case, where + "Registry.source on one plan changed the nodes of its copy/original")
                if set(other.mapping) != keys_other:
                    ctx.violation(case, where + "Registry.source on one registry changed the entries of its copy/original")
        elif k == "concurrent":
            concurrent(ctx, case, w, act, tag)
        elif k == "det_concurrent":
            det_concurrent(ctx, case, w, act, tag)
        elif k == "run_foreign":
            # a registry shared with another plan: it also holds an entry for a node that is not in this plan.
            # Whatever run makes of that (it may well refuse), the caller's registry keeps all its entries.
            other = uberjob.Plan()
            fnode = other.call(len, "abc")
            r2 = w.registry.copy()
            r2.add(fnode, world.LogicalStore(w, 998))
            snap2 = snapshot(w.plan, r2)
            out_obj, _ = w.output_obj(act["output"]) if act["output"] is not None else (None, None)
            try:
                uberjob.run(w.plan, registry=r2, output=out_obj, progress=None, max_workers=act["cfg"].get("workers"),
                            dry_run=bool(act["cfg"].get("rseed", 0) % 2))
            except BaseException:
                pass
            d = diff_snap(snap2, snapshot(w.plan, r2))
            if d:
                ctx.violation(case, tag + f"the caller's Plan/Registry (holding an entry of another plan) was modified: {d}")
        after = snapshot(w.plan, w.registry)
        d = diff_snap(before, after)
        if d:
            ctx.violation(case, tag + f"the caller's Plan/Registry was modified: {d}")
        v = registry_views(w.registry) or registry_views(w.registry.copy())
        if v:
            ctx.violation(case, tag + f"the Registry's read-only views disagree with its entries: {v}")


def registry_views(r):
    """keys / values / items / iteration / len / in / [] / get of a Registry (or its copy) describe the same entries."""
    entries = [(n, rv.value_store) for n, rv in r.mapping.items()]
    nodes = [n for n, _ in entries]
    if list(r.keys()) != nodes or list(r) != nodes or len(r) != len(nodes):
        return f"keys/iter/len: {list(r.keys())!r:.120} / {len(r)} vs {len(nodes)} entries"
    vals = r.values()
    if len(vals) != len(entries) or any(a is not b for a, (_, b) in zip(vals, entries)):
        return f"values(): {vals!r:.120}"
    items = r.items()
    if len(items) != len(entries) or any(a[0] is not b[0] or a[1] is not b[1] for a, b in zip(items, entries)):
        return f"items(): {items!r:.120}"
    for n, st_ in entries:
        if n not in r or r[n] is not st_ or r.get(n) is not st_:
            return f"in / [] / get for {n!r:.80}"
    return None


def mutate(plan, registry):
    nodes = list(plan.graph.nodes())
    x = plan.call(len, [1, 2, 3])
    y = plan.lit(7)
    plan.add_dependency(x, y)
    if nodes:
        plan.add_dependency(nodes[0], x)
        plan.graph.nodes[nodes[0]]["tag"] = 1
    st_ = world.LogicalStore(world.World({"nodes": []}, registry=False), 999)
    registry.add(x, st_)
    for rv in registry.mapping.values():
        rv.is_source = not rv.is_source
        rv.value_store = st_
    if nodes and nodes[0] in registry.mapping:
        del registry.mapping[nodes[0]]
    with plan.scope("mut"):
        plan.call(len, "abc")


def canon_physical(res, w):
    """Canonical form of a dry run's (physical plan, output node): nodes of the caller's plan by identity, nodes the
    transformation added by (function, the store it is bound to); multisets of nodes and of edges."""
    import collections
    p, node = res
    orig = set(w.plan.graph.nodes())

    def key(n):
        if n is None:
            return None
        if n in orig:
            return ("orig", id(n))
        fn = getattr(n, "fn", None)
        if fn is not None:
            self_ = getattr(fn, "__self__", None)
            return ("new", getattr(fn, "__qualname__", type(fn).__name__), id(self_) if self_ is not None else None)
        return ("newlit", type(n).__name__)

    nodes = collections.Counter(key(n) for n in p.graph.nodes())
    edges = collections.Counter((key(u), key(v), type(k_).__name__, getattr(k_, "index", None), getattr(k_, "name", None))
                                for u, v, k_ in p.graph.edges(keys=True))
    return {"nodes": nodes, "edges": edges, "output": key(node)}


def det_concurrent(ctx, case, w, act, tag):
    """Several dry runs of the same Plan + Registry at the same time, interleaved by the deterministic scheduler at
    opcode granularity inside the registry transformation: each returns the physical plan it returns when alone."""
    from vlib import detsched
    if act["stale"] == "delete_some":
        for i in sorted(refmodel.entries(w.spec))[::2]:
            nd = w.spec["nodes"][i]
            if (nd["k"] != "src" or nd["deps"]) and not nd.get("alias"):
                w.delete(i)
    elif act["stale"] == "fresh":
        try:
            uberjob.run(w.plan, registry=w.registry, progress=None)
        except BaseException:
            pass
    out_obj, _ = w.output_obj(act["output"]) if act["output"] is not None else (None, None)
    kwargs = dict(progress=None, output=out_obj, registry=w.registry, dry_run=True, max_workers=act["cfg"].get("workers"))
    try:
        alone = ("ok", canon_physical(uberjob.run(w.plan, **kwargs), w))
    except Exception as e:
        alone = ("err", type(e).__name__)
    n = act["n"]
    results, errors = [None] * n, [None] * n

    def work(i):
        try:
            results[i] = uberjob.run(w.plan, **kwargs)
        except Exception as e:
            errors[i] = e

    def thunk():
        ts = [detsched.MODEL.Thread(target=work, args=(i,)) for i in range(n)]
        for t in ts:
            t.start()
        for t in ts:
            t.join()
        return ("ok", None)

    import uberjob._registry as _reg
    import uberjob._transformations.pruning as _pr
    files = sorted(set(detsched.engine_files()) | {_reg.__file__, _pr.__file__})
    out = harness.execute(thunk, act["sched"], files=files)
    if out.verdict or out.uncaught or out.status != "ok":
        ctx.violation(case, tag + f"concurrent dry runs: scheduler verdict {out.verdict} {out.verdict_info}; uncaught "
                                  f"{out.uncaught!r}; {out.status} {out.value!r}")
    for i in range(n):
        if alone[0] == "err":
            if errors[i] is None or type(errors[i]).__name__ != alone[1]:
                ctx.violation(case, tag + f"dry run alone raises {alone[1]}, concurrent dry run {i}: {errors[i]!r} / returned")
            continue
        if errors[i] is not None:
            ctx.violation(case, tag + f"concurrent dry run {i} of {n} raised {errors[i]!r} (cause {errors[i].__cause__!r}); "
                                      f"alone it returns a plan")
        got = canon_physical(results[i], w)
        for part in ("nodes", "edges", "output"):
            if got[part] != alone[1][part]:
                a_, b_ = alone[1][part], got[part]
                extra = (f"missing {list((a_ - b_).items())[:3]} extra {list((b_ - a_).items())[:3]}"
                         if part != "output" else f"{a_} vs {b_}")
                ctx.violation(case, tag + f"concurrent dry run {i} of {n} returned a different physical plan than the same "
                                          f"dry run alone ({part}): {extra}")


def concurrent(ctx, case, w, act, tag):
    use_reg = act["cfg"].get("rseed", 0) % 2 == 0
    has_src = any(nd["k"] == "src" for nd in w.spec["nodes"])
    if not use_reg and has_src:
        use_reg = True
    out_obj, out_ref = w.output_obj(act["output"]) if act["output"] is not None else (None, None)
    kwargs = dict(progress=None, output=out_obj, max_workers=act["cfg"].get("workers"),
                  scheduler=act["cfg"].get("scheduler"))
    if use_reg:
        kwargs["registry"] = w.registry
        try:
            uberjob.run(w.plan, registry=w.registry, progress=None)  # make every store fresh
        except BaseException as e:
            ctx.violation(case, tag + f"preparatory run failed: {e!r}")
    try:
        seq = uberjob.run(w.plan, **kwargs)
    except BaseException as e:
        ctx.violation(case, tag + f"sequential run failed: {e!r} cause {e.__cause__!r}")
    results = [None] * 4
    errors = [None] * 4

    def work(i):
        try:
            results[i] = uberjob.run(w.plan, **kwargs)
        except BaseException as e:
            errors[i] = e

    ts = [threading.Thread(target=work, args=(i,)) for i in range(4)]
    for t in ts:
        t.start()
    for t in ts:
        t.join(60)
    for i in range(4):
        if errors[i] is not None:
            ctx.violation(case, tag + f"concurrent run {i} raised {errors[i]!r} (cause {errors[i].__cause__!r})")
        d = vdiff(seq, results[i])
        if d:
            ctx.violation(case, tag + f"concurrent run {i} returned {results[i]!r}, sequential run {seq!r}: {d}")


def run_shard(ctx):
    max_nodes = 8 if ctx.tier == "quick" else 12

    @given(cases(max_nodes))
    def test(case):
        runner.guarded(ctx, check_case, case)

    runner.drive(ctx, test, ctx.n(4800, 40000))


def replay(ctx, case):
    case = common.decode(case)
    if "case" in case and "action" in case:
        case = case["case"]
    for _ in range(3):
        try:
            check_case(ctx, case, record=False)
        except runner.Violation as v:
            return v.msg
    return None
