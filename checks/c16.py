"""C16 - intermediate results are released as soon as their last consumer has finished."""
import gc
import time
import traceback
import threading

from hypothesis import given, strategies as st
from uberjob.progress import Progress

from checks import common
from checks.c15 import Recorder
from vlib import harness, refmodel, runner, specs, world

ID = "C16"
LEVEL = "exploration"
SHARDS = {"quick": 8, "thorough": 16}
LEVEL_TEXT = (
    "Generated-input search over plans (with and without registry; successful, or with consumers that fail while max_errors lets the run continue) whose calls return fresh weak-referenceable "
    "tokens that hold no reference to their inputs; at every call start (after gc.collect()) every token whose producer and "
    "all consumers have already been reported completed to a recording observer, and which is not part of the output, must "
    "be dead; after run returned and its result was dropped every token must be dead. Runs use 1-4 workers, both "
    "schedulers, real threads and the deterministic scheduler (without opcode tracing, whose frames could pin locals). "
    "Bounded; presence not absence."
)
LEVEL_NOTE = (
    "Liveness is observed through weakref + gc.collect(); 'consumer finished' is taken from the engine's own completed "
    "notification, which it sends after dropping its references; explicit gather/unpack nodes are excluded from the "
    "generated plans (their values legitimately hold their members)."
)
TECHNIQUE = "property-based testing: weakref liveness invariant checked at every call boundary of generated plans"
RULE = (
    "(also: the failing consumer takes the value positionally, by keyword, or both) Hypothesis draws a plan of calls (arguments: constants, nodes, nested containers holding nodes; plain dependencies; "
    "optional registry with stored nodes and pure sources), an output spec, workers 1..4, scheduler, schedule; optionally consumers that fail (Exception) while max_errors lets the run continue - a failed consumer has finished too. Every call "
    "has a unique function name so completed notifications identify nodes. Oracle as in LEVEL_TEXT. Non-trivial = >= 1 "
    "value whose last consumer completes before the run ends (i.e. an early-releasable value exists and was checked dead "
    "while other calls were still to start). Distinct = SHA-1 of the case."
)
ASSUMPTIONS = ["CPython reference counting + gc.collect() reclaims unreferenced tokens immediately"]


@st.composite
def cases(draw, max_nodes):
    use_reg = draw(st.sampled_from([False, False, True]))
    g = specs.Gen(draw, registry=use_reg, opaque=False)
    n = draw(st.integers(2, max_nodes))
    while len(g.nodes) < n:
        k = draw(st.sampled_from(["call"] * 6 + ["lit"] + (["src"] if use_reg else [])))
        if k == "src":
            g.nodes.append({"k": "src", "deps": [], "scope": g.scope()})
            g.refs.append({"n": len(g.nodes) - 1})
            g.hashable_refs.append({"n": len(g.nodes) - 1})
        else:
            getattr(g, "add_" + k)()
    failing = draw(st.sampled_from([0, 0, 1, 2]))
    gadget = None
    if failing and draw(st.booleans()):
        # producer -> failing sole consumer, plus a few calls ordered after the producer that are still to
        # start when the consumer has failed
        pnode = g.add_call(stored=False)
        how = draw(st.sampled_from(["positional", "keyword", "both"]))  # how the consumer takes the value
        f = g.add({"k": "call", "args": [{"n": pnode}] if how != "keyword" else [],
                   "kwargs": [["x", {"n": pnode}]] if how != "positional" else [], "deps": [], "scope": g.scope(),
                   "stored": False, "beh": {"t": "ok"}, "side": None}, hashable=True)
        g.refs = [r for r in g.refs if r != {"n": pnode}]
        g.hashable_refs = [r for r in g.hashable_refs if r != {"n": pnode}]
        last = pnode
        for _ in range(draw(st.integers(1, 3))):
            last = g.add({"k": "call", "args": [], "kwargs": [], "deps": [{"n": last}], "scope": g.scope(),
                          "stored": False, "beh": {"t": "ok"}, "side": None}, hashable=True)
        gadget = f
    for i, nd in enumerate(g.nodes):
        if nd["k"] == "call":
            nd["fname"] = f"n{i}"
            nd["beh"] = {"t": "ok"}
            # some consumers fail (the run goes on: max_errors=None); a failed consumer has finished too
            if failing and not nd.get("stored") and specs.arg_preds(nd) and draw(st.integers(0, 3)) < failing:
                nd["beh"] = {"t": "raise", "exc": draw(st.sampled_from(["exc", "val"])), "first": -1}
    if gadget is not None:
        g.nodes[gadget]["beh"] = {"t": "raise", "exc": "exc", "first": -1}
    spec = {"nodes": g.nodes, "output": g.output()}
    if gadget is not None:
        spec["output"] = {"L": [dict(r) for r in g.refs]}
    cfg = {"workers": draw(st.integers(1, 4)), "scheduler": draw(st.sampled_from(["default", "random", None])),
           "rseed": draw(st.integers(0, 999))}
    if failing:
        cfg["max_errors"] = draw(st.sampled_from([None, None, None, 5, 0]))
    if draw(st.integers(0, 3)) == 0:
        # consumers that fail on their first attempt and succeed when retried
        cfg["retry"] = draw(st.sampled_from([2, 3]))
        for nd in g.nodes:
            if nd["k"] == "call" and nd["beh"]["t"] == "ok" and not nd.get("stored") and specs.arg_preds(nd) \
                    and draw(st.integers(0, 2)) == 0:
                nd["beh"] = {"t": "raise", "exc": "exc", "first": 1}
    return {"spec": spec, "cfg": cfg, "registry": use_reg, "sched": draw(harness.schedules(real_share=40))}


class PausingRecorder(Recorder):
    """Records like Recorder and then yields: another worker may start a call while this one is still inside
    the observer's increment_completed / increment_failed."""

    def __init__(self, pause):
        super().__init__()
        self._pause = pause

    def increment_completed(self, *, section, scope):
        super().increment_completed(section=section, scope=scope)
        self._pause("observer")

    def increment_failed(self, *, section, scope, exception):
        super().increment_failed(section=section, scope=scope, exception=exception)
        del exception
        self._pause("observer")


def consumers_of(spec, registry_entries):
    """token key -> set of completed-labels that must have been seen before it may be required dead."""
    nodes = spec["nodes"]
    cons = {}
    for i, nd in enumerate(nodes):
        if nd["k"] not in ("call", "src", "lit"):
            continue
        users = set()
        for c, cn in enumerate(nodes):
            if cn["k"] != "call":
                continue
            if i in set(specs.arg_preds(cn)):
                users.add(c)
        cons[i] = users
    return cons


def check_case(ctx, case, record=True):
    spec, cfg, sc = case["spec"], case["cfg"], case["sched"]
    nodes = spec["nodes"]
    use_reg = case["registry"]
    w = world.World(spec, registry=use_reg, pause=harness.pause_for(sc))
    w.token_mode = True
    if use_reg:
        w.init_sources()
    ent = refmodel.entries(spec) if use_reg else set()
    rec = PausingRecorder(w.pause)
    out_refs = {specs.ref_index(r) for r in specs.arg_refs(spec["output"])} if spec.get("output") else set()
    cons = consumers_of(spec, ent)
    lock = threading.Lock()
    stats = {"early_checked": 0, "violation": None}

    def label_call(i):
        return "harness." + nodes[i]["fname"]

    def completed_labels():
        with rec.lock:
            evs = list(rec.events)
        done = set()
        for e in evs:
            if e[0] in ("completed", "failed") and e[1] == "run":
                done.add(tuple(x for x in e[2] if isinstance(x, str) and (x.startswith("harness.n") or x.startswith("vlib.world."))))
        return done

    def must_be_dead(done):
        """Token keys whose producer and every consumer have been reported completed."""
        dead = []
        for i, users in cons.items():
            nd = nodes[i]
            if nd["k"] == "call":
                prod = (label_call(i),)
                if nd["beh"]["t"] == "raise" and nd["beh"]["first"] < 0:
                    continue
                # a result nobody consumes is judged once its producer was reported completed; a result with
                # consumers once all of them were (they can only have run after the producer returned) - the
                # statement ties the lifetime to the consumers, not to when the producer's completion is reported
                if prod not in done and not (users and i not in ent):
                    continue
                if i in ent:
                    # raw result is consumed by the store write only
                    if (label_call(i), "vlib.world.LogicalStore.write") in done:
                        dead.append(("call", i))
                    key = ("rd", i)
                    rd_label = (label_call(i), "vlib.world.LogicalStore.read")
                else:
                    key = ("call", i)
                    rd_label = None
            elif nd["k"] == "src" and i in ent:
                key = ("rd", i)
                rd_label = ("vlib.world.LogicalStore.read",)
            else:
                continue
            if i in out_refs:
                continue
            if rd_label is not None and rd_label not in done and key[0] == "rd":
                continue
            if all((label_call(c),) in done for c in users):
                dead.append(key)
        return dead

    def on_start(i):
        if stats["violation"]:
            return
        done = completed_labels()
        keys = must_be_dead(done)
        if not keys:
            return
        gc.collect()
        for key in keys:
            ref = w.tokens.get(key)
            if ref is None:
                continue
            if ref() is not None:
                stats["violation"] = (f"at the start of call {i}: result {key} is still alive although its producer and all "
                                      f"its consumers {sorted(cons.get(key[1], ()))} were already reported completed "
                                      f"(referrers: {[type(r).__name__ for r in gc.get_referrers(ref())][:6]})")
                return
            with lock:
                stats["early_checked"] += 1
                if key[0] == "call" and key[1] not in ent and any(nodes[c]["beh"]["t"] == "raise" for c in cons.get(key[1], ())):
                    stats["after_failure"] = stats.get("after_failure", 0) + 1

    w.on_call_start = on_start
    out = harness.execute(lambda: w.run(cfg, registry=use_reg, progress=Progress(lambda: rec)), sc, trace=False)
    case2 = dict(case, sched=harness.with_trace(sc, out))
    status, err = out.status, out.value if out.status != "ok" else None
    out.value = None
    w.out_ref = None
    if record:
        ctx.case(case, stats["early_checked"] > 0,
                 common.sched_classes(case, out) + ["registry" if use_reg else "no_registry",
                                                    "early_release_checked" if stats["early_checked"] else "no_early_release"]
                 + (["released_after_failed_consumer"] if stats.get("after_failure") else [])
                 + (["failing_consumer"] if any(nd["k"] == "call" and nd["beh"]["t"] == "raise" and nd["beh"]["first"] < 0 for nd in nodes) else [])
                 + (["retried_consumer"] if cfg.get("retry") else []))
    if out.verdict or out.uncaught:
        ctx.violation(case2, f"scheduler verdict {out.verdict} {out.verdict_info}; uncaught {out.uncaught!r}")
    last = {}
    for e in w.events:
        if e[1] in ("raise", "end"):
            last[e[2]] = e[1]
    failed_any = any(v == "raise" for v in last.values())  # a call whose final attempt raised
    if status != "ok" and not failed_any:
        ctx.violation(case2, f"run failed: {err!r} cause {getattr(err, '__cause__', None)!r}")
    if status == "ok" and failed_any:
        ctx.violation(case2, "a call failed but run returned normally")
    # The error of a failed run carries tracebacks whose frames (uberjob's and the harness's) legitimately
    # reference the run's internals for as long as the caller keeps the error: release them as a caller
    # dropping the error would, so that what is left is only what uberjob itself still holds.
    seen_exc = set()
    stack = [err] + [x for xs in w.raised.values() for x in xs]
    while stack:
        x = stack.pop()
        if x is None or id(x) in seen_exc:
            continue
        seen_exc.add(id(x))
        if x.__traceback__ is not None:
            traceback.clear_frames(x.__traceback__)
        stack += [x.__cause__, x.__context__]
        x.__traceback__ = None
    del err, stack, x
    w.raised = {}
    if stats["violation"]:
        ctx.violation(case2, stats["violation"])
    del out
    # the harness's own task threads may take a moment to unwind (their frames hold the run's result / error)
    for _ in range(50):
        gc.collect()
        alive = [k for k, r in w.tokens.items() if r() is not None]
        if not alive:
            break
        time.sleep(0.01)
    if alive:
        ctx.violation(case2, f"after run returned and its result was dropped these results are still alive: {alive}")


def run_shard(ctx):
    max_nodes = 8 if ctx.tier == "quick" else 12

    @given(cases(max_nodes))
    def test(case):
        runner.guarded(ctx, check_case, case)

    runner.drive(ctx, test, ctx.n(1600, 12000))


def replay(ctx, case):
    case = common.decode(case)
    for sc in harness.replay_schedules(case["sched"], attempts=6):
        try:
            check_case(ctx, dict(case, sched=sc), record=False)
        except runner.Violation as v:
            return v.msg
    return None
