"""C05 - exactly the out-of-date stored values are rebuilt; a repeated run does nothing."""
import collections

from hypothesis import given

from checks import common, regcommon
from vlib import refmodel, runner, specs, world

ID = "C05"
LEVEL = "exploration"
SHARDS = {"quick": 8, "thorough": 16}
LEVEL_TEXT = (
    "Generated histories over generated registry worlds (as C03) bring the stores into reachable states with pairwise "
    "distinct logical modified times; before each fault-free run a declarative out-of-date oracle (ancestor closure over "
    "the spec) and a needed-set oracle predict the exact multisets of call executions, store writes, store reads and "
    "modified-time queries; the observed multisets must be equal (two-sided), and an immediate repeat without output must "
    "log modified-time queries only. Bounded; presence not absence."
)
LEVEL_NOTE = (
    "The oracles in vlib/refmodel.py (out_of_date, needed) are trusted and share no code with uberjob; fresh_time applied "
    "to a dependent source follows the closure definition of DESIGN.md 2.2 (the statement is silent there)."
)
TECHNIQUE = "model-based property testing: generated histories, declarative staleness + needed-set oracle vs. observed operation multisets"
RULE = (
    "(also: a file-backed family - the same histories and oracle over uberjob's bundled pickle/text/binary/JSON file stores in a scratch directory; worlds whose stores share one repr) Hypothesis draws a registry world (as C03: incl. alias sources, sources with extra dependencies, late registration "
    "order, literal barriers, side-reading calls) and a history (runs, faulted runs, source updates, deletions, fresh_time = clock-d "
    "incl. the boundary fresh_time == a store's time). For every fault-free run: expected = oracle(out-of-date set, needed "
    "set) computed from the spec and the stores' times; observed call / read / write multisets must equal it (which stores are asked for their modified time is not constrained); "
    "then the same run repeated with no output must perform no call, read or write (when the model says a source without writer is left out of date by construction, the repeat must instead match the model exactly). Non-trivial = the out-of-date set is "
    "a non-empty proper subset of the registered nodes, or the repeat follows a non-empty rebuild. Distinct = SHA-1 of "
    "(case, index of the run)."
)
ASSUMPTIONS = ["pairwise distinct modified times (logical clock)", "fresh_time never in the future of the logical clock"]


def expected(spec, w, op, ft):
    times = regcommon.times_of(w)
    ood = refmodel.out_of_date(spec, times, ft)
    need = refmodel.needed(spec, ood, op.get("output"), registry=True)
    return ood, need


def compare(need, obs):
    msgs = []
    # (which stores are asked for their modified time is not part of the statement: an implementation may query
    # them all up front; calls, reads and writes are what it constrains)
    for name, key in (("call executions", "exec"), ("store writes", "writes"), ("store reads", "reads")):
        exp = collections.Counter({i: 1 for i in need[key]})
        got = obs[key]
        if exp != got:
            extra = got - exp
            missing = exp - got
            msgs.append(f"{name}: unexpected {dict(extra)} missing {dict(missing)}")
    return msgs


def check_case(ctx, case, record=True, make_world=None, extra_classes=()):
    spec = case["spec"]
    w = make_world(spec) if make_world else world.World(spec, registry=True)
    w.init_sources()
    ent = refmodel.entries(spec)
    if record:
        ctx.count("histories")
        ctx.count(*["world:" + c for c in regcommon.spec_classes(spec)])
    for n, op in enumerate(case["ops"]):
        tag = f"[op {n}: {regcommon.describe(op)}] "
        if op["op"] == "update":
            w.set_source(op["src"])
            continue
        if op["op"] == "delete":
            w.delete(op["entry"])
            continue
        ft = regcommon.fresh_tick(w, op)
        ood, need = expected(spec, w, op, ft)
        times_before = regcommon.times_of(w)
        out, _ = regcommon.run_op(w, op)
        if out.verdict or out.uncaught:
            ctx.violation(case, tag + f"scheduler verdict {out.verdict} {out.verdict_info}; uncaught={out.uncaught!r}")
        fault_hit = any(e[1] in ("fault", "dead") for e in w.events)
        if fault_hit or op.get("fault"):
            continue
        if out.status != "ok":
            ctx.violation(case, tag + f"fault-free run failed: {out.value!r} cause {getattr(out.value, '__cause__', None)!r}")
        obs = refmodel.observed(w)
        msgs = compare(need, obs)
        proper = bool(ood) and ood != ent
        if msgs:
            ctx.violation(case, tag + "operations differ from the out-of-date model (out-of-date=" + str(sorted(ood)) +
                          f", times={times_before}, fresh={ft}): " + "; ".join(msgs))
        # repeat immediately with no output: nothing but modified-time queries.  The only values a
        # successful run can leave out of date are sources nobody rewrites although something upstream of
        # them is newer (a pure source with extra dependencies) and whatever is downstream of those; the
        # "consequently" clause is owed when there are none, otherwise the repeat must again do exactly
        # what the model says for the new state.
        ood_after = refmodel.out_of_date(spec, regcommon.times_of(w), ft)
        unrepairable = {i for i, nd in enumerate(spec["nodes"])
                        if specs.src_kind(nd) == "pure" and nd.get("xdeps")}
        allowed = {i for i in ent if i in unrepairable or (specs.strict_ancestors(spec, i) & unrepairable)}
        if not ood_after <= allowed:
            ctx.violation(case, tag + f"after a successful run the stored values {sorted(ood_after - allowed)} are still "
                                      f"out of date (times={regcommon.times_of(w)}, fresh={ft})")
        need2 = refmodel.needed(spec, ood_after, None, registry=True)
        w.reset_log()
        cfg = dict(op["cfg"])
        if ft is not None:
            cfg["fresh"] = ft
        st_, val = w.run(cfg, output=None)
        obs2 = refmodel.observed(w)
        if st_ != "ok":
            ctx.violation(case, tag + f"repeated run failed: {val!r}")
        if not ood_after:
            if obs2["exec"] or obs2["reads"] or obs2["writes"]:
                ctx.violation(case, tag + f"immediate repeat with no output was not a no-op: calls={dict(obs2['exec'])} "
                                          f"reads={dict(obs2['reads'])} writes={dict(obs2['writes'])}")
        else:
            msgs2 = compare(need2, obs2)
            if record:
                ctx.count("repeat_with_unrepairable_source")
            if msgs2:
                ctx.violation(case, tag + "immediate repeat differs from the out-of-date model (out-of-date="
                              + str(sorted(ood_after)) + "): " + "; ".join(msgs2))
        if record:
            nt = proper or bool(need["writes"])
            ctx.case({"case": case, "run": n}, nt,
                     ["ood:proper_subset" if proper else "ood:none" if not ood else "ood:all",
                      "repeat_after_rebuild" if need["writes"] else "repeat_after_noop",
                      "fresh_time" if ft is not None else "no_fresh_time"]
                     + (["fresh_eq_store_time"] if ft is not None and ft in times_before.values() else [])
                     + list(extra_classes))


def run_shard(ctx):
    max_nodes, max_ops = (8, 6) if ctx.tier == "quick" else (12, 9)

    @given(regcommon.reg_cases(max_nodes=max_nodes, max_ops=max_ops, xdeps=True, alias=True, sread=True))
    def test(case):
        runner.guarded(ctx, check_case, case)

    runner.drive(ctx, test, ctx.n(7000, 80000))
    from checks import c05_files
    c05_files.run(ctx)


def replay(ctx, case):
    if case.get("kind") == "files":
        from checks import c05_files
        return c05_files.replay(ctx, case)
    case = common.decode(case)
    if "case" in case and "run" in case:
        case = case["case"]
    for _ in range(5):
        try:
            check_case(ctx, case, record=False)
        except runner.Violation as v:
            return v.msg
    return None
