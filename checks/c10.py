"""C10 - run limits are honoured: max_workers, max_errors and retry."""
import threading

import uberjob
from hypothesis import given, strategies as st

from checks import common
from vlib import detsched, harness, refmodel, runner, specs, world

ID = "C10"
LEVEL = "exploration"
SHARDS = {"quick": 8, "thorough": 16}
LEVEL_TEXT = (
    "Generated-input search in three families: (width) plans with an antichain of m ready calls run with w workers - an "
    "in-flight counter bounds concurrency from above and a rendezvous latch that opens only when min(w, m) bodies are in "
    "flight decides parallelism exactly under the deterministic scheduler (a pool that cannot reach that width deadlocks, "
    "which is the verdict); (max_errors) failing subsets with k in {None,0,1,..}; (retry) flaky calls, store operations and "
    "modified-time queries failing on their first j attempts with retry n or a custom decorator. Oracles: counters and "
    "exception identity from the event log. Bounded; presence not absence."
)
LEVEL_NOTE = "Trusts vlib/detsched.py; in real-thread mode a latch that does not open within 8 s is reported as inconclusive, not as a violation."
TECHNIQUE = "property-based testing with harness-owned schedules: in-flight counters, rendezvous latch (deadlock = verdict), attempt counters"
RULE = (
    "(also: one width case in 40 (quick; 16 thorough) has 33-40 (33-80) workers and as many independent calls; failing attempts under retry raise frozen/__slots__/falsy/unprintable exceptions; call 'functions' that are objects or partials) width: m in 1..6 independent calls hanging at different depths off a small tree of set-up calls (+ downstream consumers, optional registry with stored nodes), workers w in 1..m+3, "
    "stale_check_max_workers, any scheduler/schedule; oracle: max in-flight calls+store ops <= w, modified-time queries <= "
    "stale_check_max_workers (default w), latch of width min(w, m) opens. max_errors: failing subset, k; oracle: failed "
    "<= k + w; one worker: failed == min(k+1, eligible failing); k=None: every call with no failed ancestor ran. retry: "
    "flaky calls / store reads / writes / modified-time queries (fail first j attempts), n in 1..4 or custom(3); oracle: "
    "attempts == min(j+1, n), success feeds dependents (run succeeds iff every j < n), reported cause is the last "
    "attempt's exception object. Non-trivial = w >= 2 with m >= w; or a failing set with dependencies and k >= 1; or a "
    "flaky operation succeeding on attempt j+1 > 1. Distinct = SHA-1 of the case."
)
ASSUMPTIONS = ["retry applies to Exception subclasses only (create_retry's documented default)"]


@st.composite
def width_cases(draw, big_one_in=16, big_max=80):
    m = draw(st.integers(1, 6))
    big = draw(st.integers(0, big_one_in - 1)) == 0
    if big:
        # widths beyond the usual pool sizes (33-80 workers, as many independent calls): nothing documents a cap
        m = draw(st.integers(33, big_max))
    use_reg = draw(st.booleans())
    nodes = []
    # a small tree of non-blocking set-up calls; each rendezvous call hangs off one of them (or none), so
    # the m pairwise independent rendezvous calls sit at different depths of the graph
    nsetup = draw(st.sampled_from([0, 0, 1, 2, 3]))
    for i in range(nsetup):
        par = draw(st.sampled_from([None] + list(range(i))))
        nodes.append({"k": "call", "args": [] if par is None else [{"n": par}], "kwargs": [], "deps": [], "scope": [],
                      "stored": use_reg and draw(st.booleans()), "beh": {"t": "ok"}, "side": None})
    for i in range(m):
        par = draw(st.sampled_from([None] + list(range(nsetup))))
        as_dep = draw(st.booleans())
        nodes.append({"k": "call", "args": [] if par is None or as_dep else [{"n": par}], "kwargs": [],
                      "deps": [{"n": par}] if par is not None and as_dep else [], "scope": [],
                      "stored": use_reg and draw(st.booleans()),
                      "beh": {"t": "ok"}, "side": None, "latch": True})
    g = specs.Gen(draw, registry=use_reg, opaque=False)
    g.nodes = nodes
    g.refs = [{"n": i} for i in range(len(nodes))]
    g.hashable_refs = list(g.refs)
    extra = draw(st.integers(0, 4))
    for _ in range(extra):
        g.add_call()
    w = draw(st.sampled_from(list(range(1, m + 4)))) if not big else draw(st.integers(33, m + 3))
    cfg = {"workers": w, "scheduler": draw(st.sampled_from(["default", "random", None])), "rseed": draw(st.integers(0, 999))}
    if use_reg and draw(st.booleans()):
        # mostly below max_workers: that is where the separate limit is observable
        cfg["stale_workers"] = draw(st.integers(1, max(1, w - 1))) if draw(st.integers(0, 3)) else draw(st.integers(1, 4))
    spec = {"nodes": g.nodes, "output": common.all_refs_output({"nodes": g.nodes})}
    return {"fam": "width", "spec": spec, "cfg": cfg, "m": m, "registry": use_reg,
            "sched": draw(harness.schedules(real_share=10, det_only=big))}


@st.composite
def maxerr_cases(draw, max_nodes):
    spec = draw(specs.plan_specs(max_nodes=max_nodes, min_nodes=2, opaque=False, failures=draw(st.sampled_from([4, 8]))))
    for nd in spec["nodes"]:
        if nd["k"] == "call" and nd["beh"]["t"] == "raise":
            nd["beh"]["exc"] = draw(st.sampled_from(["exc", "val", "base"]))
    spec["output"] = common.all_refs_output(spec, lits=draw(st.booleans()))
    cfg = draw(specs.run_configs(nodes=len(spec["nodes"])))
    cfg["max_errors"] = draw(st.sampled_from([None, 0, 1, 2, 3, 5]))
    if draw(st.booleans()):
        cfg["workers"] = 1
    return {"fam": "maxerr", "spec": spec, "cfg": cfg, "registry": False, "sched": draw(harness.schedules())}


@st.composite
def retry_cases(draw, max_nodes):
    use_reg = draw(st.booleans())
    g = specs.Gen(draw, registry=use_reg, opaque=False, flaky=True, exotic=draw(st.booleans()))
    n = draw(st.integers(2, max_nodes))
    while len(g.nodes) < n:
        g.add_any()
    spec = {"nodes": g.nodes, "output": common.all_refs_output({"nodes": g.nodes})}
    flaky_ops = []
    if use_reg:
        ent = sorted(refmodel.entries(spec))
        for i in ent:
            for kind in ("mt", "rd", "wr"):
                if kind == "mt" and spec["nodes"][i]["k"] == "lit":
                    continue  # no symbolic call exists for a registered Literal (out of the statement's domain)
                if draw(st.sampled_from([True, False, False, False])):
                    flaky_ops.append([kind, i, draw(st.integers(1, 3))])
    cfg = draw(specs.run_configs(nodes=len(spec["nodes"])))
    cfg["retry"] = draw(st.sampled_from([1, 2, 3, 4, "custom", None]))
    cfg["max_errors"] = draw(st.sampled_from([0, None]))
    # what the failing attempts raise: plain exceptions, or ones that cannot be modified / printed / tested for truth
    kinds = ["exc", "exc", "val", "frozen", "slots", "falsy", "badstr"]
    for nd in g.nodes:
        if nd["k"] == "call" and nd["beh"]["t"] == "raise":
            nd["beh"]["exc"] = draw(st.sampled_from(kinds))
    return {"fam": "retry", "spec": spec, "cfg": cfg, "registry": use_reg, "flaky_ops": flaky_ops,
            "flaky_exc": draw(st.sampled_from([None, None] + kinds)), "sched": draw(harness.schedules())}


class Latch:
    """Opens when `target` latch-calls are in flight at the same time (then stays open)."""

    def __init__(self, target, det):
        self.target = target
        self.count = 0
        self.open = False
        self.det = det
        self.cond = detsched.MCondition(detsched.MLock()) if det else threading.Condition()
        self.timed_out = False

    def __call__(self, i):
        with self.cond:
            self.count += 1
            if self.count >= self.target:
                self.open = True
                self.cond.notify_all()
            while not self.open:
                if self.det:
                    self.cond.wait()
                elif not self.cond.wait(8):
                    self.timed_out = True
                    self.open = True
                    self.cond.notify_all()
            self.count -= 1


def check_width(ctx, case, record):
    spec, cfg, sc = case["spec"], case["cfg"], case["sched"]
    w = world.World(spec, registry=case["registry"], pause=harness.pause_for(sc))
    if case["registry"]:
        w.init_sources()
    wk, m = cfg["workers"], case["m"]
    target = min(wk, m)
    det = sc.get("mode") != "real"
    holder = {"l": Latch(target, det)}

    def latch(i):
        if spec["nodes"][i].get("latch"):
            holder["l"](i)

    w.latch = latch
    out = harness.execute(lambda: w.run(cfg, registry=case["registry"]), sc)
    case2 = dict(case, sched=harness.with_trace(sc, out))
    if record:
        depths = {len(specs.strict_ancestors(spec, i)) for i, nd in enumerate(spec["nodes"]) if nd.get("latch")}
        ctx.case(case, wk >= 2 and m >= wk, common.sched_classes(case, out) + ["fam:width", f"target:{target}" if target <= 8 else "target:33+"]
                 + (["rendezvous_at_several_depths"] if len(depths) > 1 else []))
    if holder.get("l") is not None and holder["l"].timed_out:
        raise runner.Inconclusive("real-thread latch did not open within 8 s")
    if out.verdict == "deadlock":
        ctx.violation(case2, f"{m} independent calls were ready and max_workers={wk}, but {target} of them never ran in "
                             f"parallel (rendezvous of width {target} deadlocked): {out.verdict_info}")
    if out.verdict or out.uncaught:
        ctx.violation(case2, f"scheduler verdict {out.verdict}; uncaught {out.uncaught!r}")
    if out.status != "ok":
        ctx.violation(case2, f"run failed: {out.value!r} cause {getattr(out.value, '__cause__', None)!r}")
    if w.max_inflight > wk:
        ctx.violation(case2, f"{w.max_inflight} calls/store operations were in flight at once with max_workers={wk}")
    smax = cfg.get("stale_workers") or wk
    if w.max_inflight_mt > smax:
        ctx.violation(case2, f"{w.max_inflight_mt} modified-time queries in flight at once with stale_check_max_workers={smax}")


def check_maxerr(ctx, case, record):
    spec, cfg, sc = case["spec"], case["cfg"], case["sched"]
    w = world.World(spec, registry=False, pause=harness.pause_for(sc))
    out = harness.execute(lambda: w.run(cfg, registry=False), sc)
    case2 = dict(case, sched=harness.with_trace(sc, out))
    nodes = spec["nodes"]
    need = refmodel.needed(spec, output=spec["output"], registry=False)["exec"]
    failing = {i for i in need if nodes[i]["beh"]["t"] == "raise"}
    eligible = {i for i in failing if not (specs.strict_ancestors(spec, i) & failing)}
    no_failed_anc = {i for i in need if not (specs.strict_ancestors(spec, i) & failing)}
    k, wk = cfg["max_errors"], cfg["workers"]
    failed = [e[2] for e in w.events if e[1] == "raise"]
    started = {e[2] for e in w.events if e[1] == "start"}
    has_dep = any(specs.strict_ancestors(spec, i) & need for i in failing) or any(
        i in specs.strict_ancestors(spec, j) for i in failing for j in need)
    if record:
        ctx.case(case, bool(failing) and has_dep and (k is None or k >= 1),
                 common.sched_classes(case, out) + ["fam:maxerr", f"k:{k}", f"eligible:{min(len(eligible), 4)}"])
    if out.verdict or out.uncaught:
        ctx.violation(case2, f"scheduler verdict {out.verdict} {out.verdict_info}; uncaught {out.uncaught!r}")
    if w.max_inflight > wk:
        ctx.violation(case2, f"{w.max_inflight} calls in flight at once with max_workers={wk}")
    if k is not None:
        if len(failed) > k + wk:
            ctx.violation(case2, f"{len(failed)} calls failed with max_errors={k}, max_workers={wk} (limit k+w={k + wk})")
        if wk == 1:
            want = min(k + 1, len(eligible))
            if len(failed) != want:
                ctx.violation(case2, f"single worker, max_errors={k}: {len(failed)} calls failed ({failed}), expected exactly "
                                     f"min(k+1, eligible failing={sorted(eligible)}) = {want}")
    else:
        if started != no_failed_anc:
            ctx.violation(case2, f"max_errors=None: executed {sorted(started)}, expected every call with no failed dependency "
                                 f"{sorted(no_failed_anc)}")
    if failing and eligible and out.status == "ok":
        ctx.violation(case2, "calls failed but run returned normally")


def check_retry(ctx, case, record):
    spec, cfg, sc = case["spec"], case["cfg"], case["sched"]
    w = world.World(spec, registry=case["registry"], pause=harness.pause_for(sc))
    if case["registry"]:
        w.init_sources()
    w.flaky_ops = {(k, i): j for k, i, j in case.get("flaky_ops", [])}
    w.flaky_exc = case.get("flaky_exc")
    n = world.retry_attempts(cfg.get("retry"))
    retry_obj = world.make_retry(cfg.get("retry"))
    kw = {}
    cfg2 = dict(cfg)
    if cfg.get("retry") == "custom":
        cfg2["retry"] = None
        kw["retry"] = retry_obj
    out = harness.execute(lambda: w.run(cfg2, registry=case["registry"], **kw), sc)
    case2 = dict(case, sched=harness.with_trace(sc, out))
    nodes = spec["nodes"]
    attempts = {}
    for e in w.events:
        if e[1] == "start":
            attempts[("call", e[2])] = attempts.get(("call", e[2]), 0) + 1
        elif e[1].endswith("_attempt"):
            attempts[(e[1][:2], e[2])] = e[3]
    flaky = {("call", i): nd["beh"]["first"] for i, nd in enumerate(nodes)
             if nd["k"] == "call" and nd["beh"]["t"] == "raise" and nd["beh"]["first"] > 0}
    flaky.update(w.flaky_ops)
    executed_flaky = {k: j for k, j in flaky.items() if k in attempts}
    exhausted = {k for k, j in executed_flaky.items() if j >= n}
    recovered = {k for k, j in executed_flaky.items() if j < n}
    if record:
        ctx.case(case, bool(recovered), common.sched_classes(case, out) +
                 ["fam:retry", f"retry:{cfg.get('retry')}", "recovered" if recovered else "no_recovery",
                  "exhausted" if exhausted else "not_exhausted"] + sorted({"flaky:" + k[0] for k in executed_flaky})
                 + sorted({"attempt_raises:" + nodes[k[1]]["beh"]["exc"] for k in executed_flaky if k[0] == "call"}
                          | ({"attempt_raises:" + str(case.get("flaky_exc"))} if any(k[0] != "call" for k in executed_flaky) else set())))
    if out.verdict or out.uncaught:
        ctx.violation(case2, f"scheduler verdict {out.verdict} {out.verdict_info}; uncaught {out.uncaught!r}")
    for k, a in attempts.items():
        j = flaky.get(k)
        if j is None:
            if a > 1:
                ctx.violation(case2, f"{k} never failed but was attempted {a} times")
            continue
        want = min(j + 1, n)
        if a != want:
            ctx.violation(case2, f"{k} fails on its first {j} attempts; with retry={cfg.get('retry')} it was attempted {a} times, expected {want}")
    if exhausted:
        if out.status == "ok":
            ctx.violation(case2, f"operations {sorted(exhausted)} failed on every allowed attempt but run returned normally")
        e = out.value
        if not isinstance(e, uberjob.CallError):
            ctx.violation(case2, f"run raised {e!r}, expected CallError")
        lasts = [w.raised[k][-1] for k in exhausted if k in w.raised]
        if not any(e.__cause__ is x for x in lasts):
            ctx.violation(case2, f"CallError.__cause__ {e.__cause__!r} is not the exception of the last attempt of an exhausted "
                                 f"operation ({[(k, len(w.raised.get(k, []))) for k in exhausted]})")
    else:
        if out.status != "ok":
            ctx.violation(case2, f"every flaky operation succeeds within {n} attempts ({executed_flaky}) but run raised "
                                 f"{out.value!r} cause {getattr(out.value, '__cause__', None)!r}")
        need = refmodel.needed(spec, output=spec["output"], registry=False)["exec"] if not case["registry"] else None
        if need is not None and set(k[1] for k in attempts if k[0] == "call") != need:
            ctx.violation(case2, f"an eventual success must feed dependents: executed {sorted(k[1] for k in attempts if k[0] == 'call')}, needed {sorted(need)}")
    if cfg.get("retry") == "custom":
        nops = len([1 for e in w.events if e[1] in ("start", "rd_start", "wr_start", "mt_start")])
        if retry_obj.wrapped == 0 and attempts:
            ctx.violation(case2, "the custom retry decorator was never applied")


FAMS = {"width": check_width, "maxerr": check_maxerr, "retry": check_retry}


def check_case(ctx, case, record=True):
    FAMS[case["fam"]](ctx, case, record)


def run_shard(ctx):
    max_nodes = 8 if ctx.tier == "quick" else 12

    @given(st.one_of(width_cases(*((40, 40) if ctx.tier == "quick" else (16, 80))), maxerr_cases(max_nodes), retry_cases(max_nodes)))
    def test(case):
        runner.guarded(ctx, check_case, case)

    runner.drive(ctx, test, ctx.n(6400, 100000))


def replay(ctx, case):
    case = common.decode(case)
    for sc in harness.replay_schedules(case["sched"]):
        try:
            check_case(ctx, dict(case, sched=sc), record=False)
        except runner.Violation as v:
            return v.msg
    return None
