#!/venv/bin/python
"""Which lines of /repo/src/uberjob do the generated cases of the checks execute?

  mkdir /dev/shm/cover; VERIF_COVER=/dev/shm/cover ./check C05 --tier quick    (for every check of interest)
  tools/cover_report.py /dev/shm/cover

Lists, per file, the executable lines (from the compiled code objects' line tables) that no shard executed.  A
measurement aid for the generators ("an interesting class near zero means fix the generator"), not a check.
"""
import glob
import json
import os
import sys

ROOT = os.path.join(os.environ.get("VERIF_REPO", "/repo"), "src", "uberjob")


def executable_lines(path):
    src = open(path).read()
    code = compile(src, path, "exec")
    lines = set()
    stack = [code]
    while stack:
        c = stack.pop()
        for _, _, ln in c.co_lines():
            if ln is not None and ln > 0:
                lines.add(ln)
        for k in c.co_consts:
            if hasattr(k, "co_lines"):
                stack.append(k)
    return lines, src.splitlines()


def main():
    d = sys.argv[1]
    seen = {}
    per_check = {}
    for f in glob.glob(os.path.join(d, "cover-*.json")):
        prop = os.path.basename(f).split("-")[1]
        for fn, ln in json.load(open(f)):
            seen.setdefault(fn, set()).add(ln)
            per_check.setdefault(prop, set()).add((fn, ln))
    tot = cov = 0
    for dirpath, _, files in sorted(os.walk(ROOT)):
        for name in sorted(files):
            if not name.endswith(".py"):
                continue
            path = os.path.join(dirpath, name)
            rel = os.path.relpath(path, ROOT)
            ex, src = executable_lines(path)
            got = seen.get(rel, set())
            missing = sorted(ex - got)
            # import-time lines (def/class/import statements) executed before monitoring started are not interesting
            missing = [ln for ln in missing if not src[ln - 1].lstrip().startswith(
                ("def ", "class ", "import ", "from ", "@", '"""', "__all__", ")", "]"))]
            tot += len(ex)
            cov += len(ex) - len(missing)
            if missing:
                print(f"== {rel}: {len(missing)} of {len(ex)} executable lines never executed")
                for ln in missing:
                    print(f"   {ln:4d}  {src[ln - 1].rstrip()[:110]}")
    print(f"TOTAL executable lines {tot}, executed (or import-time) {cov}")
    print("checks measured:", sorted(per_check))


if __name__ == "__main__":
    main()
