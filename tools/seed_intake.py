#!/venv/bin/python
"""tools/seed_intake.py <src-root> <PROP> <offset>: copy <src-root>/<PROP>/seed_out/{1,2} to seeded/<PROP>-{1+offset,2+offset},
verify (demo clean/changed, repository tests) and run the property's quick check against each."""
import json, os, shutil, subprocess, sys
HERE = os.path.dirname(os.path.dirname(os.path.abspath(__file__)))
root, prop, off = sys.argv[1], sys.argv[2], int(sys.argv[3])
for k in (1, 2):
    src = os.path.join(root, prop, "seed_out", str(k))
    if not os.path.isdir(src):
        print(prop, k, "missing"); continue
    sid = f"{prop}-{k + off}"
    dst = os.path.join(HERE, "seeded", sid)
    os.makedirs(dst, exist_ok=True)
    for f in ("patch.diff", "demo.py", "notes.md"):
        if os.path.exists(os.path.join(src, f)):
            shutil.copy(os.path.join(src, f), os.path.join(dst, f))
    meta_p = os.path.join(dst, "meta.json")
    if not os.path.exists(meta_p):
        json.dump({"id": sid, "property": prop, "origin": "independent sub-agent (round 2) given only the property text, the list of round-1 change descriptions to avoid, and a scratch worktree (no access to /verif)",
                   "change": "", "needs_to_manifest": ""}, open(meta_p, "w"), indent=1)
    r = subprocess.run([os.path.join(HERE, "tools", "seed_eval.py"), dst, "--props", prop], capture_output=True, text=True)
    try:
        out = json.loads(r.stdout)
    except Exception:
        print(sid, "EVAL ERROR", (r.stdout + r.stderr)[-300:]); continue
    print(sid, "demo", out.get("demo_clean_rc"), out.get("demo_mut_rc"), "tests", out.get("tests_rc"),
          {p: (v["verdict"], v["wall"], v["msg"][:160]) for p, v in out.get("checks", {}).items()}, flush=True)
    json.dump(out, open(os.path.join("/dev/shm/seedres", sid + ".json"), "w"), indent=1)
