#!/bin/sh
# usage: tools/mutant.sh <patch-file> <ID> [extra ./check args]
# Applies the patch to a scratch copy of /repo/src under /dev/shm, runs the repo tests there
# (optional, TESTS=1) and the given check with VERIF_REPO pointing at the copy; removes the copy.
set -u
PATCH="$(realpath "$1")"; ID="$2"; shift 2
D="$(mktemp -d /dev/shm/mut.XXXXXX)"
trap 'rm -rf "$D"' EXIT
mkdir -p "$D/repo"
cp -r /repo/src /repo/tests /repo/pyproject.toml "$D/repo/" 2>/dev/null
( cd "$D/repo" && patch -p1 -s < "$PATCH" ) || { echo "PATCH FAILED"; exit 3; }
if [ "${TESTS:-0}" = 1 ]; then
  ( cd "$D/repo" && PYTHONPATH="$D/repo/src" timeout 180 /venv/bin/python -m pytest -q -x -p no:cacheprovider tests 2>&1 | tail -2 )
fi
cd /verif
VERIF_REPO="$D/repo" VERIF_EVIDENCE_DIR="$D/evidence" ./check "$ID" "$@" 2>&1 | grep -v "^  " | tail -4
echo "exit=$?"
