#!/venv/bin/python
"""tools/mkmut.py <name> <file-relative-to-repo> <old> <new> : write mutants/<name>.diff"""
import difflib
import sys

name, rel, old, new = sys.argv[1:5]
src = open("/repo/" + rel).read()
assert src.count(old) == 1, f"old text occurs {src.count(old)} times"
mut = src.replace(old, new)
diff = "".join(difflib.unified_diff(src.splitlines(True), mut.splitlines(True), "a/" + rel, "b/" + rel))
open(f"/verif/mutants/{name}.diff", "w").write(diff)
print(diff)
