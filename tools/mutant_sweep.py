#!/venv/bin/python
"""Run every mutants/*.diff against its property's quick check (VERIF_REPO = patched scratch copy
under /dev/shm) and write mutants/RESULTS.md. Also records whether the repository's own tests still
pass with the mutant. Usage: tools/mutant_sweep.py [pattern]"""
import glob
import os
import re
import shutil
import subprocess
import sys
import tempfile
import time

HERE = os.path.dirname(os.path.dirname(os.path.abspath(__file__)))
pat = sys.argv[1] if len(sys.argv) > 1 else "*"
JOBS = int(os.environ.get("SWEEP_JOBS", "3"))


def one(diff):
    rows = []
    name = os.path.basename(diff)[:-5]
    prop = "C" + re.match(r"c(\d+)_", name).group(1)
    d = tempfile.mkdtemp(prefix="mut.", dir="/dev/shm")
    try:
        os.makedirs(d + "/repo")
        for x in ("src", "tests"):
            shutil.copytree("/repo/" + x, d + "/repo/" + x)
        shutil.copy("/repo/pyproject.toml", d + "/repo/pyproject.toml")
        r = subprocess.run(["patch", "-p1", "-s", "-i", diff], cwd=d + "/repo", capture_output=True, text=True)
        if r.returncode:
            return (name, prop, "patch failed", "-", "-")
        env = dict(os.environ, PYTHONPATH=d + "/repo/src")
        try:
            t = subprocess.run(["/venv/bin/python", "-m", "pytest", "-q", "-x", "-p", "no:cacheprovider", "tests"],
                               cwd=d + "/repo", env=env, capture_output=True, text=True, timeout=240)
            tests = "pass" if t.returncode == 0 else "FAIL"
        except subprocess.TimeoutExpired:
            tests = "HANG"
        env2 = dict(os.environ, VERIF_REPO=d + "/repo", VERIF_EVIDENCE_DIR=d + "/ev", VERIF_REPLAY_DIR=d + "/rp")
        t0 = time.time()
        try:
            c = subprocess.run([os.path.join(HERE, "check"), prop, "--tier", "quick"], env=env2, capture_output=True,
                               text=True, timeout=1200)
            out = c.stdout
            verdict = "caught" if c.returncode == 1 and "VIOLATION" in out else f"MISSED (exit {c.returncode})"
            first = next((l.strip() for l in out.splitlines() if l.startswith("  ")), "")[:110]
        except subprocess.TimeoutExpired:
            verdict, first = "TIMEOUT", ""
        rows.append((name, prop, tests, verdict, f"{time.time() - t0:.0f}s {first}"))
        print(rows[-1], flush=True)
        return rows[-1]
    finally:
        shutil.rmtree(d, ignore_errors=True)


import concurrent.futures as cf

with cf.ThreadPoolExecutor(JOBS) as ex:
    rows = list(ex.map(one, sorted(glob.glob(os.path.join(HERE, "mutants", pat + ".diff")))))
with open(os.path.join(HERE, "mutants", "RESULTS.md"), "w") as f:
    f.write("| mutant | property | repo tests | quick check | time / first message |\n|---|---|---|---|---|\n")
    for r in rows:
        f.write("| " + " | ".join(x.replace("|", "\\|") for x in r) + " |\n")
print("written", len(rows))
