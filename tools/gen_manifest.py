#!/venv/bin/python
"""Regenerate MANIFEST.json from the check modules present under checks/ (run from /verif)."""
import importlib
import json
import os
import sys

HERE = os.path.dirname(os.path.dirname(os.path.abspath(__file__)))
sys.path.insert(0, HERE)
os.chdir(HERE)

props = [json.loads(l) for l in open("properties.jsonl")]
checks, na = [], []
for p in props:
    pid = p["id"]
    path = os.path.join("checks", pid.lower() + ".py")
    if not os.path.exists(path):
        na.append({"property_id": pid, "reason": "check not built yet in this session (design in DESIGN.md section 4); nothing is claimed for it"})
        continue
    src = open(path).read()
    ns = {}
    # metadata is declared as plain module-level constants; read them without importing uberjob
    import ast
    tree = ast.parse(src)
    for node in tree.body:
        if isinstance(node, ast.Assign) and len(node.targets) == 1 and isinstance(node.targets[0], ast.Name):
            name = node.targets[0].id
            if name in ("ID", "LEVEL", "LEVEL_TEXT", "LEVEL_NOTE", "TECHNIQUE", "DESIGN_REF", "NOT_CLAIMED"):
                ns[name] = ast.literal_eval(node.value)
    if ns.get("NOT_CLAIMED"):
        na.append({"property_id": pid, "reason": ns["NOT_CLAIMED"]})
        continue
    checks.append({
        "property_id": pid,
        "quick_cmd": f"./check {pid} --tier quick",
        "thorough_cmd": f"./check {pid} --tier thorough",
        "evidence_file": f"evidence/{pid}.json",
        "replay_cmd_template": f"./check {pid} --replay {{path}}",
        "engine": "vlib",
        "level_claimed": {"category": ns["LEVEL"], "text": ns["LEVEL_TEXT"], "design_ref": ns.get("DESIGN_REF", f"DESIGN.md section 4, {pid}")},
        "level_note": ns["LEVEL_NOTE"],
        "technique": ns["TECHNIQUE"],
    })

m = {
    "version": 1,
    "setup_cmd": "/venv/bin/python -c 'import hypothesis, networkx' || /venv/bin/pip install --no-index --find-links /opt/veriftools/wheels hypothesis networkx",
    "hooks": {
        "guard": "UBERJOB_VERIF",
        "enable": "no source hooks exist: ./check sets PYTHONPATH=/repo/src (the working tree, not the copy installed in /venv) and injects all instrumentation from outside (harness call functions, value stores and observers; module-global swaps of threading/time/random for the duration of one case). UBERJOB_VERIF=1 is exported for symmetry only.",
        "baseline_off_cmd": "cd /repo && PYTHONPATH=/repo/src /venv/bin/python -m pytest -ra -q -p no:cacheprovider --timeout=900 --continue-on-collection-errors tests",
        "source_commits": [],
        "add_only": True,
    },
    "engines": [
        {"name": "vlib", "path": "vlib/", "serves_properties": [c["property_id"] for c in checks],
         "kind_free_text": "Hypothesis-driven generators over JSON specs, reference interpreter / declarative staleness oracle, deterministic cooperative thread scheduler (detsched), fault injectors, evidence + replay runner"},
    ],
    "checks": checks,
    "not_applicable": na,
    "notes": "Every check: ./check <ID> --tier quick|thorough; replay: ./check <ID> --replay <file>. Exit 0 held / 1 VIOLATION / 2 harness error or inconclusive. Genuine defects: known_findings.json. Design and per-property oracles: DESIGN.md.",
}
json.dump(m, open("MANIFEST.json", "w"), indent=1)
print(f"{len(checks)} checks, {len(na)} not_applicable")
