#!/venv/bin/python
"""Evaluate a seeded change (a directory with patch.diff + demo.py) on scratch copies of /repo.

  tools/seed_eval.py <dir> [--props C01,C04,...|all] [--tier quick] [--seed N]

Steps (each on a scratch copy of /repo's src+tests under /dev/shm, removed afterwards):
  1. demo on the unchanged copy must exit 0;
  2. patch applies; the repository's tests pass with it;
  3. demo on the patched copy must exit non-zero;
  4. the listed checks (default: the property named in meta.json / the directory name) are run with
     VERIF_REPO=<patched copy>; "caught" = exit 1 with a VIOLATION line.
Prints one JSON object; never touches /repo or /verif/evidence.
"""
import argparse
import concurrent.futures as cf
import json
import os
import re
import shutil
import subprocess
import sys
import tempfile
import time

HERE = os.path.dirname(os.path.dirname(os.path.abspath(__file__)))
ALL = [f"C{i:02d}" for i in range(1, 21)]


def sh(cmd, cwd=None, env=None, timeout=600):
    try:
        r = subprocess.run(cmd, cwd=cwd, env=env, capture_output=True, text=True, timeout=timeout)
        return r.returncode, (r.stdout + r.stderr)
    except subprocess.TimeoutExpired as e:
        return 124, "TIMEOUT " + str(e.stdout or "")[-500:]


def copy_repo(d):
    os.makedirs(d)
    for x in ("src", "tests"):
        shutil.copytree("/repo/" + x, d + "/" + x)
    for x in ("pyproject.toml", "setup.py", "setup.cfg"):
        if os.path.exists("/repo/" + x):
            shutil.copy("/repo/" + x, d + "/" + x)


def main():
    ap = argparse.ArgumentParser()
    ap.add_argument("dir")
    ap.add_argument("--props", default="")
    ap.add_argument("--tier", default="quick")
    ap.add_argument("--seed", default="1")
    ap.add_argument("--jobs", type=int, default=2)
    ap.add_argument("--skip-demo", action="store_true")
    a = ap.parse_args()
    sd = os.path.abspath(a.dir)
    patch = os.path.join(sd, "patch.diff")
    demo = os.path.join(sd, "demo.py")
    props = [p for p in a.props.split(",") if p]
    if props == ["all"]:
        props = ALL
    if props == ["none"]:
        props = ["-"]
    if not props:
        m = re.search(r"C\d\d", sd.upper())
        meta = os.path.join(sd, "meta.json")
        if os.path.exists(meta):
            props = [json.load(open(meta))["property"]]
        elif m:
            props = [m.group(0)]
    out = {"dir": sd, "props": props}
    base = tempfile.mkdtemp(prefix="seed.", dir="/dev/shm")
    try:
        clean, mut = base + "/clean", base + "/mut"
        copy_repo(clean)
        copy_repo(mut)
        rc, o = sh(["git", "apply", "--unsafe-paths", "--directory=" + mut, patch], cwd="/")
        if rc:
            rc, o = sh(["patch", "-p1", "-s", "-i", patch], cwd=mut)
        out["patch_applies"] = rc == 0
        if rc:
            out["patch_error"] = o[-400:]
            print(json.dumps(out, indent=1))
            return 3

        def env(root):
            return dict(os.environ, PYTHONPATH=root + "/src", PYTHONDONTWRITEBYTECODE="1")

        if not a.skip_demo and os.path.exists(demo):
            for root in (clean, mut):  # demos locate their worktree as ../../ of their own path
                os.makedirs(root + "/seed_out/x")
                shutil.copy(demo, root + "/seed_out/x/demo.py")
            rc, o = sh(["/venv/bin/python", clean + "/seed_out/x/demo.py"], cwd=clean, env=env(clean), timeout=180)
            out["demo_clean_rc"] = rc
            out["demo_clean_tail"] = o.strip().splitlines()[-1:] if o.strip() else []
            rc, o = sh(["/venv/bin/python", mut + "/seed_out/x/demo.py"], cwd=mut, env=env(mut), timeout=180)
            out["demo_mut_rc"] = rc
            out["demo_mut_tail"] = o.strip().splitlines()[-2:] if o.strip() else []
        rc, o = sh(["/venv/bin/python", "-m", "pytest", "-q", "-p", "no:cacheprovider", "tests"], cwd=mut,
                   env=env(mut), timeout=400)
        out["tests_rc"] = rc
        out["tests_tail"] = o.strip().splitlines()[-1:] if o.strip() else []

        def run_check(p):
            e = dict(os.environ, VERIF_REPO=mut, VERIF_EVIDENCE_DIR=f"{base}/ev-{p}", VERIF_REPLAY_DIR=f"{base}/rp-{p}",
                     VERIF_SEED=a.seed)
            t0 = time.time()
            rc, o = sh([os.path.join(HERE, "check"), p, "--tier", a.tier], env=e, timeout=3600)
            msg = next((l.strip() for l in o.splitlines() if l.startswith("  ")), "")[:300]
            verdict = "caught" if rc == 1 and "VIOLATION" in o else ("quiet" if rc == 0 else f"exit{rc}")
            return p, {"verdict": verdict, "wall": round(time.time() - t0), "msg": msg,
                       "tail": o.strip().splitlines()[-1:] if rc not in (0, 1) else []}

        with cf.ThreadPoolExecutor(a.jobs) as ex:
            out["checks"] = dict(ex.map(run_check, [p for p in props if p != "-"]))
        print(json.dumps(out, indent=1))
        return 0
    finally:
        shutil.rmtree(base, ignore_errors=True)


if __name__ == "__main__":
    sys.exit(main())
