#!/venv/bin/python
"""Run every seeded/<id>/ change against its property's quick check (and the checks listed under "also" in
its meta.json) on scratch copies; writes seeded/RESULTS.md.  Usage: tools/seed_sweep.py [pattern] (SWEEP_JOBS=n)"""
import concurrent.futures as cf
import glob
import json
import os
import subprocess
import sys

HERE = os.path.dirname(os.path.dirname(os.path.abspath(__file__)))
pat = sys.argv[1] if len(sys.argv) > 1 else "*"
JOBS = int(os.environ.get("SWEEP_JOBS", "3"))


def one(d):
    meta = json.load(open(os.path.join(d, "meta.json")))
    props = [meta["property"]] + list(meta.get("also", []))
    r = subprocess.run([os.path.join(HERE, "tools", "seed_eval.py"), d, "--props", ",".join(props), "--jobs", "1"],
                       capture_output=True, text=True)
    try:
        out = json.loads(r.stdout)
    except Exception:
        return meta["id"], meta, {"error": (r.stdout + r.stderr)[-300:]}
    print(meta["id"], {p: v["verdict"] for p, v in out.get("checks", {}).items()}, flush=True)
    return meta["id"], meta, out


dirs = sorted(x for x in glob.glob(os.path.join(HERE, "seeded", pat)) if os.path.isdir(x))
with cf.ThreadPoolExecutor(JOBS) as ex:
    rows = list(ex.map(one, dirs))
if pat == "*":
    with open(os.path.join(HERE, "seeded", "RESULTS.md"), "w") as f:
        f.write("| seeded change | property | what it changes | needs | repo tests | demo clean/changed | quick checks |\n|---|---|---|---|---|---|---|\n")
        for sid, meta, out in rows:
            checks = "; ".join(f"{p}: {v['verdict']} ({v['wall']}s)" for p, v in out.get("checks", {}).items())
            f.write(f"| {sid} | {meta['property']} | {meta['change']} | {meta['needs_to_manifest']} | "
                    f"{'pass' if out.get('tests_rc') == 0 else 'FAIL'} | {out.get('demo_clean_rc')}/{out.get('demo_mut_rc')} | {checks} |\n")
    print("written", len(rows))
