#!/bin/sh
# usage: tools/mkcopy.sh <patch-or-seed-dir> <dest>   -> scratch copy of /repo (src, tests, pyproject) with the patch applied
set -e
P="$(realpath "$1")"; D="$2"
[ -d "$P" ] && P="$P/patch.diff"
rm -rf "$D"; mkdir -p "$D"
cp -r /repo/src /repo/tests /repo/pyproject.toml "$D/"
( cd "$D" && patch -p1 -s < "$P" )
echo "$D"
