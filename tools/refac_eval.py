#!/venv/bin/python
"""tools/refac_eval.py <dir with patch.diff> [--props ...]: apply a behaviour-PRESERVING change to a scratch copy of
/repo, run the repository tests and the quick checks of every property anchored in the touched files.
Any VIOLATION (or harness error) here is a defect of the checks, not of the change."""
import concurrent.futures as cf, json, os, re, shutil, subprocess, sys, tempfile, time
HERE = os.path.dirname(os.path.dirname(os.path.abspath(__file__)))
MAP = [
    (r"_execution/", ["C01", "C04", "C06", "C07", "C10", "C15", "C16", "C17"]),
    (r"_transformations/|_run\.py", ["C03", "C05", "C08", "C09", "C13", "C14", "C15", "C18", "C19", "C07"]),
    (r"_plan\.py|graph\.py|_builtins|_graph\.py", ["C02", "C04", "C13", "C19", "C01"]),
    (r"stores/|_value_store|_testing", ["C11", "C12", "C08", "C18", "C14", "C05"]),
    (r"progress/", ["C15", "C20"]),
    (r"_util/traceback|_errors", ["C19", "C06"]),
    (r"_registry", ["C13", "C03", "C19"]),
    (r"_util/__init__|_util/validation|_util/networkx|_util/retry", ["C01", "C04", "C07", "C10", "C06", "C20", "C15", "C16", "C19"]),
]
d = os.path.abspath(sys.argv[1])
patch = os.path.join(d, "patch.diff")
text = open(patch).read()
files = re.findall(r"^\+\+\+ b/(\S+)", text, flags=re.M)
props = []
if "--props" in sys.argv:
    props = sys.argv[sys.argv.index("--props") + 1].split(",")
else:
    m = re.search(r"C\d\d", d.upper())
    if m:
        props.append(m.group(0))
    for f in files:
        for pat, ps in MAP:
            if re.search(pat, f):
                props += ps
props = sorted(set(props))
base = tempfile.mkdtemp(prefix="refac.", dir="/dev/shm")
out = {"dir": d, "files": files, "props": props}
try:
    mut = base + "/mut"
    os.makedirs(mut)
    for x in ("src", "tests"):
        shutil.copytree("/repo/" + x, mut + "/" + x)
    shutil.copy("/repo/pyproject.toml", mut + "/pyproject.toml")
    r = subprocess.run(["patch", "-p1", "-s", "-i", patch], cwd=mut, capture_output=True, text=True)
    out["patch_applies"] = r.returncode == 0
    if r.returncode:
        out["patch_error"] = (r.stdout + r.stderr)[-300:]
        print(json.dumps(out, indent=1)); sys.exit(3)
    env = dict(os.environ, PYTHONPATH=mut + "/src", PYTHONDONTWRITEBYTECODE="1")
    t = subprocess.run(["/venv/bin/python", "-m", "pytest", "-q", "-p", "no:cacheprovider", "tests"], cwd=mut, env=env,
                       capture_output=True, text=True, timeout=600)
    out["tests_rc"] = t.returncode
    out["tests_tail"] = t.stdout.strip().splitlines()[-1:]

    def run(p):
        e = dict(os.environ, VERIF_REPO=mut, VERIF_EVIDENCE_DIR=f"{base}/ev-{p}", VERIF_REPLAY_DIR=f"{base}/rp-{p}")
        t0 = time.time()
        c = subprocess.run([os.path.join(HERE, "check"), p, "--tier", "quick"], env=e, capture_output=True, text=True, timeout=3600)
        o = c.stdout + c.stderr
        msg = next((l.strip() for l in o.splitlines() if l.startswith("  ")), "")[:400]
        verdict = "ALARM" if c.returncode == 1 else ("quiet" if c.returncode == 0 else f"exit{c.returncode}")
        return p, {"verdict": verdict, "wall": round(time.time() - t0), "msg": msg if c.returncode else "",
                   "tail": o.strip().splitlines()[-3:] if c.returncode not in (0, 1) else []}

    with cf.ThreadPoolExecutor(int(os.environ.get("JOBS", "2"))) as ex:
        out["checks"] = dict(ex.map(run, props))
    print(json.dumps(out, indent=1))
finally:
    shutil.rmtree(base, ignore_errors=True)
