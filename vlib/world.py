"""A 'world': a spec built into uberjob objects, with instrumented call functions and
logical-clock value stores that log every operation to one event list."""
import contextlib
import datetime as dt
import random as _random
import threading as _real_threading
import weakref

import uberjob
from uberjob._util import Missing
from uberjob._value_store import ValueStore

from vlib import specs
from uberjob.stores import LiteralSource as _LiteralSource
from vlib.specs import EXC_TYPES, R, SideRead, Term, W

EPOCH = dt.datetime(2001, 1, 1)


def tick_to_dt(t):
    """Logical tick -> datetime. Successive writes are 200-500 ms apart (many ticks share one wall-clock second, and
    the sequence also crosses second boundaries): the statements assume only that times increase."""
    return None if t is None else EPOCH + dt.timedelta(milliseconds=t * 400 + (t % 3) * 100)


class Token:
    """A fresh, weak-referenceable call result that holds no reference to its inputs (C16)."""

    __slots__ = ("key", "__weakref__")

    def __init__(self, key):
        self.key = key

    def __repr__(self):
        return f"Token{self.key}"


class CallableObject:
    """A call 'function' that is an object with __call__ (optionally with a __repr__ that raises)."""

    def __init__(self, f, bad_repr):
        self.f = f
        self.bad_repr = bad_repr

    def __call__(self, *args, **kwargs):
        return self.f(*args, **kwargs)

    def __repr__(self):
        if self.bad_repr:
            raise RuntimeError("__repr__ of the callable fails")
        return f"CallableObject({self.f.__name__})"


class BuildMismatch(Exception):
    pass


class Dead(BaseException):
    """The process 'died' at an operation: every later operation also raises this."""


class InjectedFault(Exception):
    pass


class InjectedBaseFault(BaseException):
    pass


class LogicalStore(ValueStore):
    """In-memory store with a logical modified time; read() is normalising (returns R(value))."""

    __slots__ = ("world", "idx", "value", "time", "normalising")

    def __init__(self, world, idx, normalising=True):
        self.world = world
        self.idx = idx
        self.value = Missing
        self.time = None
        self.normalising = normalising

    def read(self):
        w = self.world
        w.op_begin("rd", self.idx)
        try:
            if self.value is Missing:
                raise KeyError(f"store {self.idx} is empty")
            v = self.value
        except BaseException as e:
            w.op_fail("rd", self.idx, e)
            raise
        w.op_end("rd", self.idx)
        if w.token_mode:
            t = Token(("rd", self.idx))
            w.tokens[("rd", self.idx)] = weakref.ref(t)
            return t
        return R(v) if self.normalising else v

    def write(self, value):
        w = self.world
        mode = w.op_begin("wr", self.idx)
        try:
            if mode == "after":
                self._set(value)
                raise InjectedFault(f"injected after-effect fault in write of {self.idx}")
            self._set(value)
        except BaseException as e:
            w.op_fail("wr", self.idx, e)
            raise
        w.op_end("wr", self.idx)

    def _set(self, value):
        if self.world.token_mode:
            value = ("stored", repr(value))
        with self.world.lock:
            self.value = value
            self.world.clock += 1
            self.time = self.world.clock

    def get_modified_time(self):
        w = self.world
        w.op_begin("mt", self.idx)
        w.op_end("mt", self.idx)
        return tick_to_dt(self.time)

    def __repr__(self):
        # nothing documents that distinct stores have distinct reprs (or reprs that stay distinct when abbreviated)
        style = self.world.spec.get("store_repr") if isinstance(getattr(self.world, "spec", None), dict) else None
        if style == "same":
            return "LogicalStore()"
        if style == "long":
            return f"LogicalStore('/data/{'p' * 30}/{self.idx}/{'q' * 70}/value.pkl')"
        return f"LogicalStore({self.idx})"


class LiteralLogicalStore(_LiteralSource):
    """A user subclass of the bundled LiteralSource with the same logging behaviour as LogicalStore (whatever uberjob
    does for its own store classes, it is still a store: reads, writes and time queries are store accesses)."""

    def __init__(self, world, idx, normalising=True):
        _LiteralSource.__init__(self, Missing, None)
        self.world = world
        self.idx = idx
        self.time = None
        self.normalising = normalising

    read = LogicalStore.read
    write = LogicalStore.write
    _set = LogicalStore._set
    get_modified_time = LogicalStore.get_modified_time

    def __repr__(self):
        return f"LiteralLogicalStore({self.idx})"


class FalsyLogicalStore(LogicalStore):
    """A user-defined store that happens to be falsy while it is empty (it defines __len__)."""

    __slots__ = ()

    def __len__(self):
        return 0 if self.value is Missing else 1


class AliasStore(ValueStore):
    """A second store object over the same underlying storage as `target` (like two FileStores with
    one path); operations are logged under its own index."""

    __slots__ = ("world", "idx", "target")

    def __init__(self, world, idx, target):
        self.world = world
        self.idx = idx
        self.target = target

    value = property(lambda self: self.target.value)
    time = property(lambda self: self.target.time)
    normalising = property(lambda self: self.target.normalising)

    def read(self):
        w = self.world
        w.op_begin("rd", self.idx)
        try:
            if self.target.value is Missing:
                raise KeyError(f"store {self.idx} (alias of {self.target.idx}) is empty")
            v = self.target.value
        except BaseException as e:
            w.op_fail("rd", self.idx, e)
            raise
        w.op_end("rd", self.idx)
        return R(v) if self.target.normalising else v

    def write(self, value):
        raise AssertionError("a source store is never written by uberjob")

    def get_modified_time(self):
        w = self.world
        w.op_begin("mt", self.idx)
        w.op_end("mt", self.idx)
        return tick_to_dt(self.target.time)

    def __repr__(self):
        return f"AliasStore({self.idx}->{self.target.idx})"


class World:
    def __init__(self, spec, registry=True, pause=None, normalising=True, tz_aware=False):
        self.spec = spec
        self.lock = _real_threading.Lock()
        self.events = []
        self.clock = 0
        self.pause = pause or (lambda tag=None: None)
        self.fault = None  # {"k": op index, "mode": "before|after|base|dead"}
        self.dead = False
        self.opcount = 0
        self.attempts = {}
        self.received = {}
        self.inflight = 0
        self.max_inflight = 0
        self.inflight_mt = 0
        self.max_inflight_mt = 0
        self.raised = {}  # idx -> list of exception objects raised by the call
        self.on_event = None
        self.normalising = normalising
        self.use_registry = registry
        self.src_version = {}
        self.latch = None
        self.flaky_ops = {}
        self.op_attempts = {}
        self.token_mode = False
        self.tokens = {}
        self.on_call_start = None
        self._build()

    # -- building ---------------------------------------------------------
    def _build(self):
        specs.reset_term_cache()
        spec = self.spec
        self.plan = plan = uberjob.Plan()
        self.registry = uberjob.Registry() if self.use_registry else None
        self.nodes = []
        self.stores = {}
        self.fns = {}
        self.argrefs = {}
        self.gather_count = 0
        self.shared = {}
        late = []
        # "hoist": argument-less nodes (sources, literals) created up-front in the given order, i.e. BEFORE nodes
        # they depend on: the plan's node insertion order is then not a topological order (add_dependency may
        # legally point from a newer node to an older one)
        hoisted = {}
        for i in spec.get("hoist", []):
            nd = spec["nodes"][i]
            with plan.scope(*nd.get("scope", [])):
                if nd["k"] == "lit":
                    hoisted[i] = plan.lit(specs_const(nd["v"]))
                elif nd["k"] == "src" and not nd.get("alias") and not nd.get("foreign"):
                    self.stores[i] = self.new_store(i)
                    hoisted[i] = self.registry.source(plan, self.stores[i])
        for i, nd in enumerate(spec["nodes"]):
            k = nd["k"]
            self._call_slots = set()
            with plan.scope(*nd.get("scope", [])):
                if i in hoisted:
                    node = hoisted[i]
                elif k == "call":
                    fn = self._make_fn(i, nd)
                    self.fns[i] = fn
                    args, argrefs = [], []
                    for a in nd["args"]:
                        o, r = self.materialize(a)
                        args.append(o)
                        argrefs.append(r)
                    kwargs, kwrefs = {}, []
                    for name, a in nd["kwargs"]:
                        o, r = self.materialize(a)
                        kwargs[name] = o
                        kwrefs.append((name, r))
                    self.argrefs[i] = (argrefs, kwrefs)
                    node = plan.call(fn, *args, **kwargs)
                elif k == "lit":
                    node = plan.lit(specs_const(nd["v"]))
                elif k == "src" and nd.get("foreign"):
                    if not hasattr(self, "registry2"):
                        self.registry2 = uberjob.Registry()
                    node = self.registry2.source(plan, self.new_store(i))
                    if nd["foreign"] == "added":
                        self.stores[i] = self.new_store(i)
                        self.registry.add(node, self.stores[i])
                elif k == "src":
                    if nd.get("alias"):
                        store = AliasStore(self, i, self.stores[nd["deps"][0]["n"]])
                    else:
                        store = self.new_store(i)
                    self.stores[i] = store
                    node = self.registry.source(plan, store)
                elif k == "unpack":
                    o, r = self.materialize(nd["of"])
                    self.argrefs[i] = ([r], [])
                    node = plan.unpack(o, nd["n"])
                elif k == "gather":
                    o, r = self.materialize(nd["v"])
                    self.argrefs[i] = ([r], [])
                    node = plan.gather(o)
                    if ("n" in nd["v"] or "u" in nd["v"]) and node is not o:
                        raise BuildMismatch(f"plan.gather(node) did not return the node itself (node {i})")
                else:
                    raise ValueError(k)
            self.nodes.append(node)
            for r in list(nd.get("deps", [])) + list(nd.get("xdeps", [])):
                plan.add_dependency(self.node_of(r), node)
            if nd.get("stored") and self.registry is not None and k in ("call", "lit"):
                store = self.new_store(i)
                self.stores[i] = store
                if nd.get("late") is not None:
                    late.append((nd["late"], i))
                else:
                    self.registry.add(node, store)
        for _, i in sorted(late):
            self.registry.add(self.nodes[i], self.stores[i])
        for fr, to in spec.get("back", []):
            plan.add_dependency(self.node_of(fr), self.node_of(to))
        self.index_of = {}
        for i, n in enumerate(self.nodes):
            if isinstance(n, tuple):
                for j, x in enumerate(n):
                    self.index_of.setdefault(x, (i, j))
            else:
                self.index_of.setdefault(n, i)

    def new_store(self, i):
        if i < len(self.spec["nodes"]) and self.spec["nodes"][i].get("litsrc"):
            return LiteralLogicalStore(self, i, self.normalising)
        if i < len(self.spec["nodes"]) and self.spec["nodes"][i].get("falsy"):
            return FalsyLogicalStore(self, i, self.normalising)
        return LogicalStore(self, i, self.normalising)

    def node_of(self, ref):
        if "n" in ref:
            return self.nodes[ref["n"]]
        return self.nodes[ref["u"]][ref["j"]]

    def materialize(self, a):
        """ARG -> (python object holding uberjob Nodes, reference structure)."""
        if "c" in a:
            o = specs_const(a["c"])
            return o, ("obj", o)
        if "st" in a:  # the value store object of registry entry a["st"], passed as a plain (opaque) argument
            o = self.stores[a["st"]]
            return o, ("obj", o)
        if "n" in a:
            return self.nodes[a["n"]], ("n", a["n"])
        if "u" in a:
            return self.nodes[a["u"]][a["j"]], ("u", a["u"], a["j"])
        if "O" in a:
            items = [self.materialize(x)[0] for x in a["items"]]
            o = specs.make_opaque(a["O"], items)
            return o, ("obj", o)
        if "D" in a:
            pairs = [(self.materialize(k), self.materialize(v)) for k, v in a["D"]]
            o = self._shared(a, {k[0]: v[0] for k, v in pairs})
            if not specs.has_ref(a):
                return o, ("obj", o)
            return o, ("D", [(k[1], v[1]) for k, v in pairs])
        tag = "L" if "L" in a else "T" if "T" in a else "S"
        if a.get("same") and tag in ("L", "T") and a[tag]:
            # leading children that are equal specs are one object at several positions
            first = self.materialize(a[tag][0])
            parts = []
            for x in a[tag]:
                parts.append(first if (x == a[tag][0] and len(parts) == len([p for p in parts if p is first])) else self.materialize(x))
        else:
            parts = [self.materialize(x) for x in a[tag]]
        o = self._shared(a, {"L": list, "T": tuple, "S": set}[tag](p[0] for p in parts))
        if not specs.has_ref(a):
            return o, ("obj", o)
        return o, (tag, [p[1] for p in parts])

    def _shared(self, a, fresh):
        """A container ARG with a "sh" slot is the same python object at every use, mutated in place."""
        slot = a.get("sh")
        if slot is None:
            return fresh
        if slot in self._call_slots:
            # generator invariant (specs.Gen._use_slot): all arguments of one API call are evaluated before
            # uberjob sees any of them, so one slot used twice there has no well-defined expected value
            from vlib.runner import Inconclusive

            raise Inconclusive(f"invalid generated case: slot {slot} used twice within one API call")
        self._call_slots.add(slot)
        o = self.shared.get(slot)
        if o is None or type(o) is not type(fresh):
            self.shared[slot] = fresh
            return fresh
        o.clear()
        if type(o) is list:
            o.extend(fresh)
        else:
            o.update(fresh)
        return o

    def _make_fn(self, i, nd):
        world = self

        def fn(*args, **kwargs):
            if world.token_mode and nd["beh"]["t"] == "raise" and nd["beh"]["first"] < 0:
                # C16: the frames of a failing call end up in the traceback of the reported error; they must
                # not be what keeps the arguments alive
                del args, kwargs
                return world.on_call(i, nd, (), {})
            return world.on_call(i, nd, args, kwargs)

        fn.__module__ = "harness"
        fn.__qualname__ = fn.__name__ = nd.get("fname") or f"f{i % 3}"
        kind = nd.get("fnkind")
        if kind == "partial":
            import functools

            return functools.partial(fn)
        if kind in ("obj", "obj_badrepr"):
            return CallableObject(fn, kind == "obj_badrepr")
        return fn

    # -- event log ----------------------------------------------------------
    def log(self, kind, idx, extra=None):
        with self.lock:
            ev = (len(self.events), kind, idx, extra, _real_threading.get_ident())
            self.events.append(ev)
        if self.on_event:
            self.on_event(ev)
        return ev

    def _next_op(self, kind, idx):
        """Assign an operation index; apply the fault plan. Returns the fault mode or None."""
        with self.lock:
            k = self.opcount
            self.opcount += 1
            dead = self.dead
            f = self.fault
            hit = f is not None and f["k"] == k
            if hit and f["mode"] == "dead":
                self.dead = True
                dead = True
        if dead:
            self.log("dead", idx, kind)
            raise Dead()
        if hit:
            self.log("fault", idx, (kind, f["mode"]))
            mode = f["mode"]
            if mode == "after" and kind not in ("wr", "call"):
                mode = "before"  # nothing takes effect in a read / modified-time query
            exc = None
            if mode == "before":
                exc = InjectedFault(f"injected fault at op {k} ({kind} {idx})")
            elif mode == "base":
                exc = InjectedBaseFault(f"injected base fault at op {k} ({kind} {idx})")
            if exc is not None:
                self.raised.setdefault((kind, idx), []).append(exc)
                if kind != "call":
                    self.log(kind + "_raise", idx, type(exc).__name__)
                raise exc
            return mode
        return None

    def op_begin(self, kind, idx):
        mode = self._next_op(kind, idx)
        j = self.flaky_ops.get((kind, idx))
        if j is not None:
            with self.lock:
                a = self.op_attempts.get((kind, idx), 0) + 1
                self.op_attempts[(kind, idx)] = a
            self.log(kind + "_attempt", idx, a)
            if a <= j:
                exc_type = EXC_TYPES.get(getattr(self, "flaky_exc", None), InjectedFault)
                exc = exc_type(f"flaky {kind} of {idx}: attempt {a} fails")
                self.raised.setdefault((kind, idx), []).append(exc)
                self.log(kind + "_raise", idx, type(exc).__name__)
                raise exc
        with self.lock:
            if kind == "mt":
                self.inflight_mt += 1
                self.max_inflight_mt = max(self.max_inflight_mt, self.inflight_mt)
            else:
                self.inflight += 1
                self.max_inflight = max(self.max_inflight, self.inflight)
        self.log(kind + "_start", idx)
        try:
            self.pause(kind)
        except BaseException:
            with self.lock:
                if kind == "mt":
                    self.inflight_mt -= 1
                else:
                    self.inflight -= 1
            raise
        return mode

    def op_end(self, kind, idx):
        with self.lock:
            if kind == "mt":
                self.inflight_mt -= 1
            else:
                self.inflight -= 1
        self.log(kind + "_end", idx)

    def op_fail(self, kind, idx, exc):
        with self.lock:
            self.inflight -= 1
        self.raised.setdefault((kind, idx), []).append(exc)
        self.log(kind + "_raise", idx, type(exc).__name__)

    # -- the call functions ---------------------------------------------------
    def on_call(self, i, nd, args, kwargs):
        try:
            fmode = self._next_op("call", i)
        except BaseException as e:
            if not isinstance(e, (InjectedFault, InjectedBaseFault)):
                self.raised.setdefault(("call", i), []).append(e)
            self.log("raise", i, type(e).__name__)
            raise
        with self.lock:
            attempt = self.attempts.get(i, 0) + 1
            self.attempts[i] = attempt
            self.inflight += 1
            self.max_inflight = max(self.max_inflight, self.inflight)
        if not self.token_mode:
            self.received[i] = (args, list(kwargs.items()))
        self.log("start", i, attempt)
        if self.on_call_start is not None:
            self.on_call_start(i)
        try:
            if self.latch is not None:
                self.latch(i)
            self.pause("call")
            beh = nd["beh"]
            t = beh["t"]
            if t == "raise" and (beh["first"] < 0 or attempt <= beh["first"]):
                raise EXC_TYPES[beh["exc"]](f"boom in node {i} attempt {attempt}")
            if t == "ret":
                value = specs_const(beh["v"])
            elif t == "seq":
                if beh["as"].startswith("lenliar"):
                    value = specs.LenLiar(args, len(args) + (3 if beh["as"].endswith("+") else -1 if args else 2))
                else:
                    value = {"list": list, "tuple": tuple, "gen": iter}[beh["as"]](args)
            elif self.token_mode:
                value = Token(("call", i))
                self.tokens[("call", i)] = weakref.ref(value)
            else:
                if nd.get("sread") is not None:
                    args = args + (SideRead(nd["sread"], self.stores[nd["sread"]].value),)
                value = Term(i, args, kwargs.items())
            del args, kwargs
            side = nd.get("side")
            if side is not None:
                store = self.stores[side]
                self.log("side_start", side, i)
                store._set(W(value))
                self.log("side_end", side, i)
            if fmode == "after":
                raise InjectedFault(f"injected after-effect fault in call {i}")
            self.pause("call")
        except BaseException as e:
            with self.lock:
                self.inflight -= 1
            if not self.token_mode:  # C16: the harness must not be what keeps a failed call's frames alive
                self.raised.setdefault(("call", i), []).append(e)
            self.log("raise", i, type(e).__name__)
            raise
        with self.lock:
            self.inflight -= 1
        self.log("end", i, attempt)
        return value

    # -- store state ----------------------------------------------------------
    def tick_dt(self, t):
        """The datetime of logical tick t in this world's stores' time scale."""
        return tick_to_dt(t)

    def set_source(self, i, version=None):
        """(Re)write a pure source's content: a new logical time."""
        v = self.src_version.get(i, 0) + 1 if version is None else version
        self.src_version[i] = v
        self.stores[i]._set(("SRC", i, v))

    def init_sources(self):
        for i, nd in enumerate(self.spec["nodes"]):
            if specs.src_kind(nd) == "pure" and i in self.stores:
                self.set_source(i)

    def delete(self, i):
        s = self.stores[i]
        if hasattr(s, "harness_delete"):
            s.harness_delete()
            return
        s.value = Missing
        s.time = None

    def snapshot(self):
        return {"clock": self.clock, "src_version": dict(self.src_version),
                "stores": {i: (s.value, s.time) for i, s in self.stores.items()
                           if not isinstance(s, AliasStore)}}

    def restore(self, snap):
        self.clock = snap["clock"]
        self.src_version = dict(snap["src_version"])
        for i, (v, t) in snap["stores"].items():
            self.stores[i].value = v
            self.stores[i].time = t

    def reset_log(self):
        self.events = []
        self.opcount = 0
        self.attempts = {}
        self.received = {}
        self.raised = {}
        self.fault = None
        self.dead = False
        self.inflight = self.max_inflight = 0
        self.inflight_mt = self.max_inflight_mt = 0
        self.op_attempts = {}

    # -- transform_physical callbacks ---------------------------------------
    def transform(self, kind):
        """A transform_physical callback. kind: None | 'copy' | 'copy_add' | 'copy_wrap' | 'inplace_add' |
        'inplace_wrap'.  'copy*' return a NEW plan (plan.copy()), 'inplace*' edit the plan they are given;
        '*add' adds one unconnected marker call (logged as call 'xf'), '*wrap' wraps the output node in a
        call (logged as 'xw') and redirects the output to it."""
        if not kind:
            return None
        world = self

        def xf():
            world.log("start", "xf")
            world.pause("call")
            world.log("end", "xf")
            return "xf"

        def xw(x):
            world.log("start", "xw")
            world.pause("call")
            world.log("end", "xw")
            return ("wrapped", x)

        for f in (xf, xw):
            f.__module__ = "harness"
            f.__qualname__ = f.__name__

        def tf(plan, node):
            p = plan if kind.startswith("inplace") else plan.copy()
            if kind.endswith("cycle_edge") or kind.endswith("cycle_new"):
                # the transformation closes a dependency cycle in the plan that is about to be executed
                from uberjob.graph import Call
                edges = [(a, b) for a, b in p.graph.edges() if isinstance(a, Call) and isinstance(b, Call) and a is not b]
                if kind.endswith("cycle_edge") and edges:
                    a, b = edges[len(edges) // 2]
                    p.add_dependency(b, a)
                    world.tcycle_made = "edge"
                else:
                    with p.scope("xfs"):
                        c1 = p.call(xf)
                        c2 = p.call(xw, c1)
                    p.add_dependency(c2, c1)
                    world.tcycle_made = "new"
                return p, node
            with p.scope("xfs"):
                if kind.endswith("add"):
                    p.call(xf)
                if kind.endswith("wrap") and node is not None:
                    node = p.call(xw, node)
            return p, node

        return tf

    # -- running ------------------------------------------------------------
    def output_obj(self, out):
        if out is None:
            return None, None
        self._call_slots = set()
        return self.materialize(out)

    def run(self, cfg=None, output="spec", registry=True, **kw):
        """uberjob.run on this world's plan. Returns ("ok", value) or ("err", exception)."""
        cfg = cfg or {}
        if isinstance(output, str) and output == "spec":
            output = self.spec.get("output")
        out_obj, self.out_ref = self.output_obj(output) if output is not None else (None, None)
        kwargs = dict(progress=None)
        if out_obj is not None or output is not None:
            kwargs["output"] = out_obj
        if registry and self.registry is not None:
            kwargs["registry"] = self.registry
        if cfg.get("workers") is not None:
            kwargs["max_workers"] = cfg["workers"]
        if cfg.get("scheduler") is not None:
            kwargs["scheduler"] = cfg["scheduler"]
        if "max_errors" in cfg:
            kwargs["max_errors"] = cfg["max_errors"]
        if cfg.get("retry") is not None:
            kwargs["retry"] = make_retry(cfg["retry"])
        if cfg.get("fresh") is not None:
            ft = self.tick_dt(cfg["fresh"])
            kwargs["fresh_time"] = ft
        if cfg.get("stale_workers") is not None:
            kwargs["stale_check_max_workers"] = cfg["stale_workers"]
        kwargs.update(kw)
        with seeded_random(cfg.get("rseed", 0)):
            try:
                return "ok", uberjob.run(self.plan, **kwargs)
            except BaseException as e:  # noqa: B902 - the caller classifies it
                return "err", e


def specs_const(c):
    import copy

    from vlib.util import uncanon

    if isinstance(c, (dict, list, tuple, set)):
        return copy.deepcopy(uncanon(c))
    return c


class CustomRetry:
    """A user-supplied retry decorator: 3 attempts, retrying any Exception; counts its uses."""

    def __init__(self, attempts=3):
        self.attempts = attempts
        self.wrapped = 0

    def __call__(self, f):
        self.wrapped += 1
        attempts = self.attempts

        def wrapper(*args, **kwargs):
            for n in range(attempts):
                try:
                    return f(*args, **kwargs)
                except Exception:
                    if n == attempts - 1:
                        raise

        return wrapper


def make_retry(r):
    if r == "custom":
        return CustomRetry(3)
    return r


def retry_attempts(r):
    if r is None:
        return 1
    if r == "custom":
        return 3
    return r


@contextlib.contextmanager
def seeded_random(seed):
    """uberjob's RandomQueue uses the module-global `random`; pin it for the duration of a run."""
    import uberjob._execution.scheduler as sched_mod

    old = sched_mod.random
    sched_mod.random = _random.Random(seed)
    try:
        yield
    finally:
        sched_mod.random = old
