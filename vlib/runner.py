"""Shared runner: seeds, shards, evidence, replay files, known-findings protocol.

Exit codes: 0 = property held on everything explored (known findings are printed as
KNOWN-FINDING lines), 1 = at least one violation not listed in known_findings.json
(VIOLATION line printed), 2 = harness error / inconclusive (never a VIOLATION).
"""
import collections
import hashlib
import importlib
import json
import multiprocessing
import os
import subprocess
import sys
import time
import traceback

VERIF_DIR = os.path.dirname(os.path.dirname(os.path.abspath(__file__)))
REPO = os.environ.get("VERIF_REPO", "/repo")


class Violation(Exception):
    """Raised by a check body when the property's oracle rejects a case."""

    def __init__(self, case, msg, key=None):
        super().__init__(msg)
        self.case = case
        self.msg = msg
        self.key = key  # optional signature used to match known findings


class Inconclusive(Exception):
    """A budget / watchdog was hit: never a violation."""


from vlib.util import canon, uncanon  # noqa: E402


def case_hash(case):
    return hashlib.sha1(
        json.dumps(canon(case), sort_keys=True, separators=(",", ":")).encode()
    ).hexdigest()


class Ctx:
    """Per-shard collector handed to check modules."""

    def __init__(self, prop, tier, seed, shard, nshards, scale=1.0, opts=None):
        self.prop = prop
        self.tier = tier
        self.base_seed = seed
        self.shard = shard
        self.nshards = nshards
        self.seed = seed * 1000003 + shard
        self.scale = scale
        self.opts = opts or {}
        self.evaluations = 0
        self.nontrivial = set()
        self.classes = collections.Counter()
        self.samples = []
        self.violations = []
        self.excluded = collections.Counter()
        self.extra = {}
        self._sample_every = 1
        self.t0 = time.time()

    # -- sizes ---------------------------------------------------------
    def n(self, quick, thorough=None):
        """Number of examples for this shard (already divided among shards)."""
        total = quick if self.tier == "quick" else (thorough if thorough is not None else quick * 10)
        total = int(total * self.scale)
        return max(1, total // self.nshards)

    # -- recording -----------------------------------------------------
    def case(self, case, nontrivial, classes=()):
        self.evaluations += 1
        for c in classes:
            self.classes[c] += 1
        if nontrivial:
            self.classes["nontrivial"] += 1
            self.nontrivial.add(case_hash(case))
            if len(self.samples) < 4 and (self.evaluations % 17 == 1 or len(self.samples) == 0):
                self.samples.append(canon(case))

    def count(self, *classes, k=1):
        for c in classes:
            self.classes[c] += k

    def exclude(self, what, k=1):
        self.excluded[what] += k

    def violation(self, case, msg, key=None):
        v = Violation(case, msg, key)
        self.violations.append({"case": canon(case), "msg": msg, "key": key})
        raise v

    def result(self):
        return {
            "shard": self.shard,
            "seed": self.seed,
            "evaluations": self.evaluations,
            "nontrivial": sorted(self.nontrivial),
            "classes": dict(self.classes),
            "samples": self.samples,
            "violations": self.violations,
            "excluded": dict(self.excluded),
            "extra": self.extra,
            "wall_s": time.time() - self.t0,
        }


MAX_INCONCLUSIVE_CASES = 25


def guarded(ctx, fn, *args, **kw):
    """Run one generated case. A case that hits a wall-clock budget (real-thread modes only; the deterministic
    scheduler gives exact verdicts) is counted as inconclusive and skipped - never a violation, and not a reason to
    fail the whole check unless it keeps happening."""
    if os.environ.get("VERIF_TRACE_CASES"):  # debugging aid: which case is a shard working on?
        with open(f"/dev/shm/cur-{ctx.prop}-{ctx.shard}.json", "w") as f:
            json.dump({"t": time.time(), "n": ctx.evaluations, "args": canon(list(args))}, f)
    try:
        return fn(ctx, *args, **kw)
    except Inconclusive as e:
        ctx.count("inconclusive_case")
        notes = ctx.extra.setdefault("inconclusive_notes", [])
        if len(notes) < 5:
            notes.append(str(e)[:200])
        if ctx.classes["inconclusive_case"] > MAX_INCONCLUSIVE_CASES:
            raise


def hyp_settings(ctx, max_examples, stateful_step_count=None, shrink=None):
    """Hypothesis settings shared by all checks (see DESIGN.md 2.6)."""
    from hypothesis import HealthCheck, Phase, settings

    if shrink is None:
        shrink = ctx.tier == "thorough"
    phases = [Phase.generate] + ([Phase.shrink] if shrink else [])
    kw = dict(
        max_examples=max_examples,
        deadline=None,
        database=None,
        derandomize=False,
        report_multiple_bugs=False,
        suppress_health_check=list(HealthCheck),
        phases=phases,
        print_blob=False,
    )
    if stateful_step_count is not None:
        kw["stateful_step_count"] = stateful_step_count
    return settings(**kw)


def drive(ctx, test_fn, max_examples, shrink=None):
    """Run a @given-style function under the shard's seed; violations are collected in ctx."""
    import hypothesis

    s = hyp_settings(ctx, max_examples, shrink=shrink)
    fn = hypothesis.seed(ctx.seed)(s(test_fn))
    n_before = len(ctx.violations)
    try:
        fn()
    except Violation:
        pass
    except BaseException as e:  # Flaky etc.: fine iff a violation was recorded
        if len(ctx.violations) == n_before:
            raise
        ctx.extra.setdefault("hypothesis_notes", []).append(
            f"{type(e).__name__}: {str(e)[:200]}"
        )


def drive_machine(ctx, machine_cls, max_examples, steps, shrink=None):
    import hypothesis
    from hypothesis.stateful import run_state_machine_as_test

    s = hyp_settings(ctx, max_examples, stateful_step_count=steps, shrink=shrink)
    n_before = len(ctx.violations)
    try:
        run_state_machine_as_test(hypothesis.seed(ctx.seed)(machine_cls), settings=s)
    except Violation:
        pass
    except BaseException as e:
        if len(ctx.violations) == n_before:
            raise
        ctx.extra.setdefault("hypothesis_notes", []).append(
            f"{type(e).__name__}: {str(e)[:200]}"
        )


# ---------------------------------------------------------------------------


def _shard_entry(args):
    modname, prop, tier, seed, shard, nshards, scale, opts = args
    if os.environ.get("VERIF_DUMP_AFTER"):  # debugging aid (see vlib/main.py)
        import faulthandler

        global _DUMP_FILE
        _DUMP_FILE = open(f"/dev/shm/dump-{prop}-{shard}.txt", "w")
        faulthandler.dump_traceback_later(int(os.environ["VERIF_DUMP_AFTER"]), repeat=True, file=_DUMP_FILE)
    try:
        cover = _start_cover() if os.environ.get("VERIF_COVER") else None
        mod = importlib.import_module(modname)
        ctx = Ctx(prop, tier, seed, shard, nshards, scale, opts)
        try:
            mod.run_shard(ctx)
        except Violation:
            pass
        if cover is not None:
            _stop_cover(cover, f"{os.environ['VERIF_COVER']}/cover-{prop}-{shard}.json")
        res = ctx.result()
        res["error"] = None
        return res
    except Inconclusive as e:
        return {"shard": shard, "error": None, "inconclusive": str(e), "evaluations": 0,
                "nontrivial": [], "classes": {}, "samples": [], "violations": [],
                "excluded": {}, "extra": {}, "wall_s": 0.0, "seed": seed}
    except BaseException:
        return {"shard": shard, "error": traceback.format_exc(), "evaluations": 0,
                "nontrivial": [], "classes": {}, "samples": [], "violations": [],
                "excluded": {}, "extra": {}, "wall_s": 0.0, "seed": seed}


def _start_cover():
    """Measurement aid (VERIF_COVER=<dir>, see tools/cover_report.py): which lines of the uberjob package the generated
    cases execute, via sys.monitoring (independent of the scheduler's sys.settrace).  Forked children (C08/C11 kill
    enumeration) are not measured."""
    import sys
    mon = sys.monitoring
    tool = mon.COVERAGE_ID
    root = os.path.join(os.environ.get("VERIF_REPO", "/repo"), "src", "uberjob") + os.sep
    seen = set()

    def on_line(code, line):
        fn = code.co_filename
        if fn.startswith(root):
            seen.add((fn[len(root):], line))
        return mon.DISABLE

    mon.use_tool_id(tool, "verif-cover")
    mon.register_callback(tool, mon.events.LINE, on_line)
    mon.set_events(tool, mon.events.LINE)
    return seen


def _stop_cover(seen, path):
    import sys
    sys.monitoring.set_events(sys.monitoring.COVERAGE_ID, 0)
    sys.monitoring.free_tool_id(sys.monitoring.COVERAGE_ID)
    with open(path, "w") as f:
        json.dump(sorted(seen), f)


def _kill_pool(ex):
    for p in list(getattr(ex, "_processes", {}).values()):
        try:
            p.kill()
        except Exception:
            pass
    ex.shutdown(wait=False, cancel_futures=True)


def load_known():
    path = os.path.join(VERIF_DIR, "known_findings.json")
    if not os.path.exists(path):
        return []
    with open(path) as f:
        return json.load(f).get("findings", [])


def repo_state():
    def git(*a):
        try:
            return subprocess.run(["git", "-C", REPO, *a], capture_output=True, text=True,
                                  timeout=20).stdout.strip()
        except Exception:
            return "?"

    return {"repo": REPO, "head": git("rev-parse", "HEAD"),
            "dirty": bool(git("status", "--porcelain", "--", "src"))}


def assert_tree():
    import uberjob

    want = os.path.realpath(os.path.join(REPO, "src"))
    got = os.path.realpath(uberjob.__file__)
    if not got.startswith(want + os.sep):
        print(f"HARNESS-ERROR: uberjob imported from {got}, expected under {want}")
        sys.exit(2)


def write_replay(prop, v):
    d = os.environ.get("VERIF_REPLAY_DIR") or os.path.join(VERIF_DIR, "replays")
    os.makedirs(d, exist_ok=True)
    h = case_hash(v["case"])[:12]
    path = os.path.join(d, f"{prop}-{h}.json")
    with open(path, "w") as f:
        json.dump({"property": prop, "case": v["case"], "msg": v["msg"], "key": v.get("key")},
                  f, indent=1, sort_keys=True)
    return os.path.relpath(path, VERIF_DIR)


def run_check(mod, prop, tier, seed, shards=None, scale=1.0, opts=None):
    t0 = time.time()
    assert_tree()
    known = [k for k in load_known() if k.get("property") == prop]
    known_open = [k for k in known if k.get("status") == "known"]
    out_lines = []
    violations = []
    directed = {"regress_cases": 0, "known_demonstrated": 0}

    # 1. directed replays: regress/<ID>/*.json must hold; known findings are demonstrated
    rdir = os.path.join(VERIF_DIR, "regress", prop)
    rctx = Ctx(prop, tier, seed, 0, 1, scale, opts)
    if os.path.isdir(rdir):
        for name in sorted(os.listdir(rdir)):
            if not name.endswith(".json"):
                continue
            with open(os.path.join(rdir, name)) as f:
                rec = json.load(f)
            directed["regress_cases"] += 1
            msg = mod.replay(rctx, rec["case"])
            if msg:
                violations.append({"case": rec["case"], "msg": f"regression case {name}: {msg}",
                                   "key": rec.get("key")})
    for k in known_open:
        if "case" in k:
            msg = mod.replay(rctx, k["case"])
            if msg:
                directed["known_demonstrated"] += 1
                out_lines.append(f"KNOWN-FINDING: property={prop} {k['what']}")
            else:
                out_lines.append(f"NOTE: known finding {k.get('id')} for {prop} did not reproduce on this tree")

    # 2. generated search
    nshards = shards or (mod.SHARDS.get(tier, 1) if hasattr(mod, "SHARDS") else 1)
    args = [(mod.__name__, prop, tier, seed, i, nshards, scale, opts or {}) for i in range(nshards)]
    if nshards == 1:
        results = [_shard_entry(args[0])]
    else:
        import concurrent.futures as cf

        mpctx = multiprocessing.get_context("fork")
        budget = float(os.environ.get("VERIF_BUDGET_S", "900" if tier == "quick" else "14400"))
        ex = cf.ProcessPoolExecutor(min(nshards, os.cpu_count() or 1), mp_context=mpctx)
        try:
            results = list(ex.map(_shard_entry, args, timeout=budget))
        except cf.TimeoutError:
            print(f"INCONCLUSIVE: {prop} shards did not finish within the {budget:.0f} s wall budget")
            _kill_pool(ex)
            return 2
        except cf.process.BrokenProcessPool as e:
            print(f"HARNESS-ERROR: a shard process died ({e})")
            _kill_pool(ex)
            return 2
        ex.shutdown()

    errors = [r for r in results if r.get("error")]
    inconclusive = [r for r in results if r.get("inconclusive")]
    evaluations = sum(r["evaluations"] for r in results) + rctx.evaluations
    nontrivial = set(rctx.nontrivial)
    classes = collections.Counter(rctx.classes)
    excluded = collections.Counter()
    samples = list(rctx.samples)
    extra = {}
    for r in results:
        nontrivial.update(r["nontrivial"])
        classes.update(r["classes"])
        excluded.update(r["excluded"])
        for s in r["samples"]:
            if len(samples) < 5:
                samples.append(s)
        for k, v in r["extra"].items():
            if isinstance(v, (int, float)) and not isinstance(v, bool):
                extra[k] = extra.get(k, 0) + v
            elif isinstance(v, list):
                extra.setdefault(k, [])
                extra[k] = (extra[k] + v)[:10]
            else:
                extra.setdefault(k, v)
        violations.extend(r["violations"][-1:])  # the last recorded one is the shrunk one

    # 3. classify violations against the known-findings file
    new_violations = []
    for v in violations:
        matched = None
        for k in known_open:
            if k.get("key") is not None and k.get("key") == v.get("key"):
                matched = k
        if matched:
            line = f"KNOWN-FINDING: property={prop} {matched['what']}"
            if line not in out_lines:
                out_lines.append(line)
        else:
            new_violations.append(v)

    replay_paths = []
    for v in new_violations[:5]:
        replay_paths.append(write_replay(prop, v))

    evidence = {
        "property_id": prop,
        "tier": tier,
        "seed": seed,
        "level": mod.LEVEL,
        "coverage": {
            "evaluations": evaluations,
            "distinct_nontrivial": len(nontrivial),
            "rule": mod.RULE,
            "samples": samples if samples else [{"note": "no non-trivial sample recorded"}],
            "classes": dict(sorted(classes.items())),
            "excluded_known_finding_inputs": dict(excluded),
            "shards": nshards,
            "shard_seeds": [r.get("seed") for r in results],
            "directed": directed,
            "extra": extra,
            "exhaustive": False,
        },
        "assumptions": list(getattr(mod, "ASSUMPTIONS", [])),
        "wall_s": round(time.time() - t0, 3),
        "violations": len(new_violations),
        "known_findings_reported": [l for l in out_lines if l.startswith("KNOWN-FINDING")],
        "tree": repo_state(),
        "tools": tool_versions(),
        "inconclusive": [r["inconclusive"] for r in inconclusive],
    }
    edir = os.environ.get("VERIF_EVIDENCE_DIR") or os.path.join(VERIF_DIR, "evidence")
    os.makedirs(edir, exist_ok=True)
    with open(os.path.join(edir, f"{prop}.json"), "w") as f:
        json.dump(evidence, f, indent=1, sort_keys=True)

    for l in out_lines:
        print(l)
    print(f"{prop} tier={tier} seed={seed} shards={nshards} evaluations={evaluations} "
          f"distinct_nontrivial={len(nontrivial)} violations={len(new_violations)} "
          f"wall={evidence['wall_s']}s")
    if new_violations:
        for v, p in zip(new_violations, replay_paths):
            print(f"VIOLATION property={prop} replay={p}")
            print("  " + v["msg"].replace("\n", "\n  ")[:2000])
        return 1
    if errors:
        for r in errors:
            print(f"HARNESS-ERROR in shard {r['shard']}:\n{r['error']}")
        return 2
    if inconclusive:
        for r in inconclusive:
            print(f"INCONCLUSIVE shard {r['shard']}: {r['inconclusive']}")
        return 2
    return 0


def tool_versions():
    import hypothesis
    import networkx

    return {"python": sys.version.split()[0], "hypothesis": hypothesis.__version__,
            "networkx": networkx.__version__}


def run_replay(mod, prop, path):
    assert_tree()
    with open(path) as f:
        rec = json.load(f)
    ctx = Ctx(prop, "quick", int(os.environ.get("VERIF_SEED", "1")), 0, 1)
    msg = mod.replay(ctx, rec["case"])
    if msg:
        print(f"VIOLATION property={prop} replay={path}")
        print("  reproduced: " + msg.replace("\n", "\n  ")[:4000])
        return 1
    print(f"{prop} replay {path}: not reproduced in this process (property held on the saved case)")
    return 0
