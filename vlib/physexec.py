"""An independent, sequential executor for a physical plan returned by a dry run.

It uses only the documented graph model (uberjob.graph: Call / Literal nodes, PositionalArg / KeywordArg /
Dependency edge keys) and none of uberjob's execution code, so a change to run() cannot affect both sides of
C14's comparison.  Semantics of max_errors=None: every node none of whose predecessors failed is executed."""
import networkx as nx
from uberjob.graph import Call, KeywordArg, Literal, PositionalArg


def execute(plan):
    """Returns (values: {node: value}, failures: [(node, exception)])."""
    g = plan.graph
    values, failed, failures = {}, set(), []
    for n in nx.topological_sort(g):
        if any(p in failed for p in g.predecessors(n)):
            failed.add(n)
            continue
        if type(n) is Literal:
            values[n] = n.value
            continue
        assert type(n) is Call, n
        pos, kw = {}, []
        for u, _, key in g.in_edges(n, keys=True):
            if type(key) is PositionalArg:
                pos[key.index] = values[u]
            elif type(key) is KeywordArg:
                kw.append((key.index, key.name, values[u]))
        try:
            values[n] = n.fn(*[pos[i] for i in sorted(pos)], **{name: v for _, name, v in sorted(kw, key=lambda t: t[0])})
        except Exception as e:  # noqa: BLE001 - any failure of the node
            failed.add(n)
            failures.append((n, e))
    return values, failures
