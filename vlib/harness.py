"""Executing a world under a generated schedule (deterministic scheduler or real threads)."""
import random
import sys
import threading
import time

from hypothesis import strategies as st

from vlib import detsched


REAL_TIMEOUT = 20.0


class Outcome:
    def __init__(self):
        self.status = None  # "ok" | "err"
        self.value = None
        self.verdict = None  # None | "deadlock" | "divergence"
        self.verdict_info = None
        self.steps = 0
        self.switches = 0
        self.engine_switches = 0
        self.trace = None
        self.uncaught = []
        self.alive_after = []  # tasks/threads still alive when the thunk returned
        self.mode = None
        self.max_tasks = 0
        self.sched = None


@st.composite
def schedules(draw, real_share=15, det_only=False):
    roll = draw(st.sampled_from(range(100)))
    if not det_only and roll < real_share:
        return {"mode": "real", "jitter": draw(st.integers(0, 2 ** 16))}
    if roll < 60:
        return {"mode": "det", "policy": "random", "seed": draw(st.integers(0, 2 ** 20)),
                "rate": draw(st.sampled_from([0.01, 0.05, 0.2, 0.5]))}
    if roll < 85:
        return {"mode": "det", "policy": "pct", "seed": draw(st.integers(0, 2 ** 20)),
                "depth": draw(st.integers(1, 4)),
                "horizon": draw(st.sampled_from([200, 1000, 4000]))}
    segs = draw(st.lists(st.tuples(st.integers(0, 400), st.integers(0, 5)), max_size=6))
    return {"mode": "det", "policy": "runlen", "segments": [list(s) for s in segs]}


def make_policy(sc):
    p = sc.get("policy", "random")
    if "trace" in sc and sc.get("use_trace"):
        return detsched.ReplayPolicy(sc["trace"])
    if p == "random":
        return detsched.RandomPolicy(sc["seed"], sc.get("rate", 0.1))
    if p == "pct":
        return detsched.PCTPolicy(sc["seed"], sc.get("depth", 3), sc.get("horizon", 1000))
    if p == "runlen":
        return detsched.RunLengthPolicy([tuple(s) for s in sc.get("segments", [])])
    if p == "replay":
        return detsched.ReplayPolicy(sc["trace"])
    raise ValueError(p)


class RealPause:
    """Jitter for real-thread mode: tiny sleeps at harness pause points."""

    def __init__(self, seed):
        self.rng = random.Random(seed)
        self.lock = threading.Lock()

    def __call__(self, tag=None):
        with self.lock:
            r = self.rng.random()
        if r < 0.5:
            time.sleep(r * 4e-4)


def pause_for(sc):
    if sc.get("mode") == "real":
        return RealPause(sc.get("jitter", 0))
    return detsched.pause


def execute(thunk, sc, trace=True, modules=None, extra=None, trace_tasks=None, files=None,
            max_steps=2_000_000, after=None):
    """Run thunk() -> (status, value) under schedule config sc. `after` runs in the main task
    right after thunk returned (to inspect what is still alive)."""
    out = Outcome()
    out.mode = sc.get("mode", "det")
    if out.mode == "real":
        old = sys.getswitchinterval()
        sys.setswitchinterval(1e-6)
        before = set(threading.enumerate())
        box = {}

        def runner_thread():
            try:
                box["r"] = thunk()
            except BaseException as e:  # noqa: B902
                box["r"] = ("err", e)

        try:
            th = threading.Thread(target=runner_thread, daemon=True, name="verif-real-main")
            th.start()
            th.join(REAL_TIMEOUT)
            if th.is_alive():
                from vlib.runner import Inconclusive

                raise Inconclusive(f"real-thread run did not finish within {REAL_TIMEOUT} s (no verdict in this mode)")
            out.status, out.value = box["r"]
            out.alive_after = [t.name for t in threading.enumerate()
                               if t not in before and t.is_alive() and t is not th]
            if after:
                after(out)
        finally:
            sys.setswitchinterval(old)
        return out

    policy = make_policy(sc)
    box = {}

    def main():
        r = thunk()
        s = detsched._current
        box["alive"] = [t.name for t in s.tasks if t.state != "done" and t is not s.main]
        box["ntasks"] = len(s.tasks)
        if after:
            after(out)
        return r

    s, res = detsched.run_under(main, policy, trace=trace, modules=modules, extra=extra,
                                trace_tasks=trace_tasks, files=files, max_steps=max_steps)
    out.sched = s
    out.verdict = s.verdict
    out.verdict_info = s.verdict_info
    out.steps = s.steps
    out.switches = s.switches
    out.engine_switches = s.engine_switches
    out.trace = s.trace
    out.uncaught = s.uncaught
    out.alive_after = box.get("alive", [])
    out.max_tasks = len(s.tasks)
    if res is not None:
        out.status, out.value = res
    elif s.main.exc is not None:
        out.status, out.value = "err", s.main.exc
    return out


def with_trace(sc, out):
    """Schedule config that replays the recorded decision trace (kept next to the original)."""
    sc2 = dict(sc)
    if out.trace is not None and len(out.trace) < 20000:
        sc2["trace"] = [list(x) for x in out.trace]
    return sc2


def replay_schedules(sc, attempts=20):
    """Schedules to try when replaying a saved case: the recorded trace first, then the
    original policy, then a short seeded search (DESIGN.md section 1: Node hashes are address
    based, so default-scheduler tie-breaks may differ between processes)."""
    if sc.get("mode") == "real":
        for i in range(attempts):
            yield dict(sc, jitter=sc.get("jitter", 0) + i)
        return
    if "trace" in sc:
        yield dict(sc, use_trace=True)
    yield {k: v for k, v in sc.items() if k != "trace"}
    for i in range(attempts):
        yield {"mode": "det", "policy": "random", "seed": 7919 * (i + 1),
               "rate": [0.05, 0.2, 0.5][i % 3]}
