"""./check <ID> --tier quick|thorough [--replay FILE] [--shards N] [--scale X]"""
import argparse
import importlib
import os
import sys

from vlib import runner


def main():
    ap = argparse.ArgumentParser()
    ap.add_argument("prop")
    ap.add_argument("--tier", default=os.environ.get("VERIF_TIER", "quick"),
                    choices=["quick", "thorough"])
    ap.add_argument("--replay")
    ap.add_argument("--shards", type=int)
    ap.add_argument("--scale", type=float, default=float(os.environ.get("VERIF_SCALE", "1")))
    ap.add_argument("--opt", action="append", default=[])
    a = ap.parse_args()
    prop = a.prop.upper()
    try:
        seed = int(os.environ.get("VERIF_SEED", "1"))
    except ValueError:
        seed = 1
    try:
        mod = importlib.import_module(f"checks.{prop.lower()}")
    except ImportError as e:
        print(f"HARNESS-ERROR: cannot import check for {prop}: {e}")
        return 2
    opts = dict(o.split("=", 1) if "=" in o else (o, "1") for o in a.opt)
    try:
        if a.replay:
            return runner.run_replay(mod, prop, a.replay)
        return runner.run_check(mod, prop, a.tier, seed, a.shards, a.scale, opts)
    except SystemExit:
        raise
    except BaseException:
        import traceback

        print("HARNESS-ERROR:\n" + traceback.format_exc())
        return 2


if __name__ == "__main__":
    if os.environ.get("VERIF_DUMP_AFTER"):  # debugging aid: where is a slow case spending its time?
        import faulthandler

        faulthandler.dump_traceback_later(int(os.environ["VERIF_DUMP_AFTER"]), repeat=True)
    sys.stdout.reconfigure(line_buffering=True)
    sys.exit(main())
