"""Plan specs (plain JSON data), Hypothesis strategies for them, and the builder that turns a
spec into uberjob objects through the public API only.

Spec = {"nodes": [node, ...]}; node index = creation order.  Node kinds:
  call   {"k":"call","args":[ARG],"kwargs":[[name,ARG]],"deps":[REF],"scope":[..],"stored":bool,
          "beh": BEH, "side": src-index|None}
  lit    {"k":"lit","v":CONST,"deps":[REF],"scope":[..],"stored":bool}
  src    {"k":"src","deps":[REF],"scope":[..]}            (registry.source; deps = its writer)
         optional "xdeps":[REF]  extra plain dependencies of the source on arbitrary earlier nodes
         optional "alias":true   deps = [stored node t]: the source reads the SAME underlying store as
                                 node t (a second store object over it) and depends on t
                                 (tests/test_registry.py::test_source_dependent_on_write)
  call   optional "sread":k      the call also looks into the store of registry entry k directly when it runs (a
                                 side channel); it is ordered after k by a plain dependency, directly or through
                                 a literal barrier (these edges are part of "deps")
  call/lit optional "late":rank  registry.add is issued after all nodes were created, in rank order
                                 (so a source can be registered before an earlier stored node)
  unpack {"k":"unpack","of":ARG,"n":int,"scope":[..]}      (plan.unpack; elements are {"u":i,"j":j})
  gather {"k":"gather","v":ARG,"scope":[..]}              (explicit plan.gather)
     (an L / T ARG may carry "same":true : its leading equal children are ONE python object placed at
      several positions)
ARG  = {"c":CONST} | {"n":i} | {"u":i,"j":j} | {"L":[ARG]} | {"T":[ARG]} | {"S":[ARG]}
     (an L / S / D ARG may carry "sh":slot : the SAME mutable python object is passed at every use of the
      slot, mutated in place to the contents given at that use -- build histories, C02)
     | {"D":[[ARG,ARG]]} | {"O":kind,"items":[ARG]}        (opaque: subclass / custom object)
REF  = {"n":i} | {"u":i,"j":j}
BEH  = {"t":"ok"} | {"t":"ret","v":CONST} | {"t":"seq","as":"list|tuple|gen"}
     | {"t":"raise","exc":"exc|base|kbi|exit","first":j}   (raises on the first j attempts; j=-1 always)
"""
import threading

from hypothesis import strategies as st

# ---------------------------------------------------------------------------
# values produced by harness call functions and stores


class Term:
    """Structural result of a harness call: (node index, positional values, keyword items)."""

    __slots__ = ("idx", "args", "kwargs", "__weakref__")

    def __init__(self, idx, args, kwargs):
        self.idx = idx
        self.args = tuple(args)
        self.kwargs = tuple(kwargs)

    def __hash__(self):
        return hash(("Term", self.idx))

    def __eq__(self, other):
        return (
            type(other) is Term
            and self.idx == other.idx
            and veq(self.args, other.args)
            and veq(self.kwargs, other.kwargs)
        )

    _depth = threading.local()

    def __repr__(self):
        d = getattr(Term._depth, "n", 0)
        if d >= 4:  # results are DAGs: an unbounded repr is exponential in the depth
            return f"t{self.idx}(...)"
        Term._depth.n = d + 1
        try:
            inner = ", ".join(
                [*(repr(a) for a in self.args), *(f"{k}={v!r}" for k, v in self.kwargs)]
            )
        finally:
            Term._depth.n = d
        return f"t{self.idx}({inner})"


class R:
    """What a normalising store returns from read(): distinguishable from what was written."""

    __slots__ = ("v",)

    def __init__(self, v):
        self.v = v

    def __hash__(self):
        return hash(("R", _safe_hash(self.v)))

    def __eq__(self, other):
        return type(other) is R and veq(self.v, other.v)

    def __repr__(self):
        return f"R({self.v!r})"


class W:
    """What a dependent source's writer call puts into the source's store."""

    __slots__ = ("v",)

    def __init__(self, v):
        self.v = v

    def __hash__(self):
        return hash(("W", _safe_hash(self.v)))

    def __eq__(self, other):
        return type(other) is W and veq(self.v, other.v)

    def __repr__(self):
        return f"W({self.v!r})"


class SideRead:
    """What a call saw when it looked into a store directly (a side channel, not an uberjob argument)."""

    __slots__ = ("k", "v")

    def __init__(self, k, v):
        self.k = k
        self.v = v

    def __hash__(self):
        return hash(("SideRead", self.k, _safe_hash(self.v)))

    def __eq__(self, other):
        return type(other) is SideRead and self.k == other.k and veq(self.v, other.v)

    def __repr__(self):
        return f"SideRead({self.k}: {self.v!r})"


def _safe_hash(v):
    try:
        return hash(v)
    except TypeError:
        return 0


_TERM_EQ = {}  # (id, id) -> (term, term, diff): comparisons of shared sub-results across calls (sets / dict keys)


def reset_term_cache():
    _TERM_EQ.clear()


def veq(a, b):
    """Type-exact structural equality over harness values (None if equal is not needed: bool)."""
    return vdiff(a, b) is None


def vdiff(a, b, path="$", memo=None):
    """None if equal (exact types at every level), else a short reason.  Results are shared values (a DAG, not a
    tree): pairs of Terms already compared in this call are not compared again."""
    if a is b:
        return None
    ta, tb = type(a), type(b)
    if ta is not tb:
        return f"type {ta.__name__} vs {tb.__name__} at {path}"
    if memo is None:
        memo = {}
    if ta is Term:
        if a.idx != b.idx:
            return f"term t{a.idx} vs t{b.idx} at {path}"
        key = (id(a), id(b))
        if key in memo:
            return memo[key]
        hit = _TERM_EQ.get(key)
        if hit is not None and hit[0] is a and hit[1] is b:
            return hit[2]
        r = vdiff(a.args, b.args, f"{path}.t{a.idx}.args", memo) or vdiff(
            a.kwargs, b.kwargs, f"{path}.t{a.idx}.kwargs", memo
        )
        memo[key] = r
        if len(_TERM_EQ) > 200000:
            _TERM_EQ.clear()
        _TERM_EQ[key] = (a, b, r)  # Terms are immutable; the entry keeps both alive, so the ids stay valid
        return r
    if ta in (R, W):
        return vdiff(a.v, b.v, f"{path}.{ta.__name__}", memo)
    if ta is SideRead:
        if a.k != b.k:
            return f"side read of {a.k} vs {b.k} at {path}"
        return vdiff(a.v, b.v, f"{path}.SideRead({a.k})", memo)
    if ta in (list, tuple):
        if len(a) != len(b):
            return f"length {len(a)} vs {len(b)} at {path}"
        for i, (x, y) in enumerate(zip(a, b)):
            r = vdiff(x, y, f"{path}[{i}]", memo)
            if r:
                return r
        return None
    if ta is dict:
        if len(a) != len(b):
            return f"dict size {len(a)} vs {len(b)} at {path}"
        for (ka, va), (kb, vb) in zip(a.items(), b.items()):
            r = vdiff(ka, kb, f"{path}.key", memo) or vdiff(va, vb, f"{path}[{ka!r}]", memo)
            if r:
                return r
        return None
    if ta in (set, frozenset):
        if len(a) != len(b):
            return f"set size {len(a)} vs {len(b)} at {path}"
        for x in a:
            ys = [y for y in b if y == x]
            if not ys:
                return f"set member {x!r} missing at {path}"
            r = vdiff(x, ys[0], path + "{}", memo)
            if r:
                return r
        return None
    if isinstance(a, Opaque):
        return None if a is b else f"opaque object replaced at {path}"
    if a != b:
        return f"{a!r} vs {b!r} at {path}"
    return None


# opaque argument objects: must be passed through untouched (identity), nodes and all
class Opaque:
    pass


class MyList(list, Opaque):
    pass


class MyTuple(tuple, Opaque):
    pass


class MyDict(dict, Opaque):
    pass


class MySet(set, Opaque):
    __hash__ = None


class Box(Opaque):
    def __init__(self, items):
        self.items = items

    def __repr__(self):
        return f"Box({self.items!r})"


OPAQUE_KINDS = ["mylist", "mytuple", "mydict", "myset", "box", "frozenset", "deque"]


def make_opaque(kind, items):
    import collections

    if kind == "mylist":
        return MyList(items)
    if kind == "mytuple":
        return MyTuple(items)
    if kind == "mydict":
        return MyDict({i: x for i, x in enumerate(items)})
    if kind == "myset":
        return MySet(items)
    if kind == "frozenset":
        return frozenset(items)
    if kind == "deque":
        return collections.deque(items)
    return Box(list(items))


class BoomError(Exception):
    pass


class BoomBase(BaseException):
    pass


@__import__("dataclasses").dataclass(frozen=True)
class FrozenError(Exception):
    """An exception type that does not allow attribute assignment (a frozen dataclass, as some code bases define)."""

    msg: str


class BadStrError(Exception):
    """An exception whose own __str__/__repr__ fail."""

    def __str__(self):
        raise RuntimeError("__str__ of the exception fails")

    __repr__ = __str__


class SlotsError(Exception):
    __slots__ = ()


class EmptyRowsError(Exception):
    """An exception instance that is falsy (it defines __len__, e.g. 'the rows that were rejected': none)."""

    def __len__(self):
        return 0


class LenLiar:
    """An iterable whose len() is not the number of items it yields (a table: len = rows, iteration = columns)."""

    def __init__(self, items, fake_len):
        self.items = list(items)
        self.fake_len = fake_len

    def __iter__(self):
        return iter(self.items)

    def __len__(self):
        return self.fake_len


EXC_TYPES = {"falsy": EmptyRowsError, "frozen": FrozenError, "badstr": BadStrError, "slots": SlotsError, "exc": BoomError, "base": BoomBase, "kbi": KeyboardInterrupt, "exit": SystemExit,
             "val": ValueError}

# ---------------------------------------------------------------------------
# strategies

CONSTS = st.one_of(
    st.integers(-3, 9), st.sampled_from(["a", "b", "", "k"]), st.none(),
    st.just([1, 2]), st.just((1, "x")), st.just({"p": 1}), st.just({1, 2}),
    st.just([[1], (2, [3])]), st.just(2.5),
)
HASHABLE_CONSTS = st.one_of(st.integers(0, 4), st.sampled_from(["a", "b", "k"]))
SCOPE_VALUES = st.one_of(st.integers(0, 2), st.sampled_from(["s", "t", "u"]))
KW_NAMES = ["x", "y", "z", "a", "b"]


class Gen:
    """Incremental spec construction inside one @st.composite draw."""

    def __init__(self, draw, registry=False, failures=False, opaque=True, flaky=False,
                 late=False, xdeps=False, alias=False, lits=1, shared=False, sread=False, exotic=False,
                 foreign=False, store_args=False):
        self.draw = draw
        self.nodes = []
        self.registry = registry
        self.failures = failures
        self.flaky = flaky
        self.opaque = opaque
        self.refs = []  # REFs usable as arguments / dependencies
        self.hashable_refs = []
        self.writer_locked = set()  # node indices that must get no further successors
        self.late = late
        self.xdeps = xdeps
        self.alias = alias
        self.shared = shared
        self.sread = sread
        self.exotic = exotic  # exotic exception types and callables (C06)
        self.store_args = store_args  # value-store objects of the registry passed as plain arguments (C13)
        self.foreign = foreign  # sources created through a registry that is not the one passed to run (C14)
        self.lits = lits  # weight of literal nodes / literal chains in add_any
        self.lit_refs = []
        self.cur_slots = set()
        self.frozen_slots = set()

    # -- argument structures
    def ref(self, hashable=False):
        pool = self.hashable_refs if hashable else self.refs
        return dict(self.draw(st.sampled_from(pool)))

    def arg(self, depth=0, hashable=False, want_node=False):
        d = self.draw
        pool = self.hashable_refs if hashable else self.refs
        choices = ["c"]
        if pool:
            choices += ["n", "n", "n"]
        if depth < 3:
            choices += ["T"] if hashable else ["L", "T", "S", "D"]
            if self.opaque and not hashable and depth < 2:
                choices.append("O")
        if self.store_args and not hashable and depth <= 1:
            ents = [i for i, nd in enumerate(self.nodes)
                    if (nd["k"] == "src" and nd.get("foreign") in (None, False, "added")) or nd.get("stored")]
            if ents and d(st.integers(0, 7)) == 0:
                return {"st": d(st.sampled_from(ents))}
        k = d(st.sampled_from(choices))
        if want_node and pool and depth == 0 and k == "c":
            k = "n"
        if k == "c":
            return {"c": d(HASHABLE_CONSTS if hashable else CONSTS)}
        if k == "n":
            return self.ref(hashable)
        if k in ("L", "T"):
            n = d(st.integers(0, 3))
            out = {k: [self.arg(depth + 1, hashable) for _ in range(n)]}
            if self.shared and n and d(st.integers(0, 5)) == 0 and not _uses_slots(out[k][0]):
                # the very same child OBJECT at several positions (row = [x, y]; [row, row]): no cycle, just sharing
                out[k] = [out[k][0]] * d(st.integers(2, 3)) + out[k][1:]
                out["same"] = True
            if k == "L" and self.shared and d(st.integers(0, 2)) == 0:
                self._share(out, "L")
            return out
        if k == "S":
            n = d(st.integers(0, 3))
            items = []
            for _ in range(n):
                x = self.arg(depth + 1, True)
                if x not in items:  # a set literal holds equal build-time objects once
                    items.append(x)
            out = {"S": items}
            if self.shared and d(st.integers(0, 3)) == 0:
                self._share(out, "S")
            return out
        if k == "D":
            n = d(st.integers(0, 3))
            pairs, seen = [], []
            for _ in range(n):
                key = self.arg(depth + 1, True)
                if key in seen:  # a dict literal cannot hold the same key object twice
                    continue
                seen.append(key)
                pairs.append([key, self.arg(depth + 1)])
            out = {"D": pairs}
            if self.shared and d(st.integers(0, 2)) == 0:
                self._share(out, "D")
            return out
        kind = d(st.sampled_from(OPAQUE_KINDS))
        n = d(st.integers(0, 2))
        need_hash = kind in ("myset", "frozenset")
        return {"O": kind, "items": [self.arg(depth + 1, need_hash) for _ in range(n)]}

    def _share(self, out, tag):
        # one python object per slot; a slot is used at most once per API call (all arguments of one
        # plan.call are evaluated before uberjob sees any of them)
        slot = "%s%d" % (tag, self.draw(st.integers(0, 1)))
        self._use_slot(out, slot)

    def _use_slot(self, out, slot):
        # A container passed while it holds no node becomes the VALUE of a literal (captured by reference); if
        # it later came to hold nodes that depend on that literal, the value would contain itself.  Such
        # self-containing literal values are outside every statement: once a slot was used node-free it stays
        # node-free.
        if slot in self.cur_slots or (slot in self.frozen_slots and has_ref(out)):
            return
        self.cur_slots.add(slot)
        out["sh"] = slot
        if not has_ref(out):
            self.frozen_slots.add(slot)

    def scope(self):
        return self.draw(st.lists(SCOPE_VALUES, max_size=2))

    def deps(self, max_size=2):
        if not self.refs:
            return []
        k = self.draw(st.integers(0, max_size))
        if k and self.draw(st.integers(0, 2)) == 0:
            k = 0 if k == 1 else k
        out = []
        for _ in range(k):
            if self.lits > 1 and self.lit_refs and self.draw(st.integers(0, 2)) == 0:
                r = dict(self.draw(st.sampled_from(self.lit_refs)))
            else:
                r = self.ref()
            if r not in out:
                out.append(r)
        return out

    def beh(self):
        d = self.draw
        roll = d(st.sampled_from(range(20)))
        if roll < 2:
            return {"t": "ret", "v": d(HASHABLE_CONSTS)}
        if self.failures and roll < 2 + self.failures:
            exc = d(st.sampled_from(["exc", "exc", "exc", "val", "base", "kbi", "exit"]
                                    + (["frozen", "badstr", "slots", "falsy"] if self.exotic else [])))
            return {"t": "raise", "exc": exc, "first": -1}
        if self.flaky and roll >= 17:
            return {"t": "raise", "exc": d(st.sampled_from(["exc", "val"])),
                    "first": d(st.integers(1, 3))}
        return {"t": "ok"}

    # -- nodes
    def add(self, node, hashable):
        i = len(self.nodes)
        self.nodes.append(node)
        if node["k"] == "unpack":
            for j in range(node["n"]):
                self.refs.append({"u": i, "j": j})
        else:
            self.refs.append({"n": i})
            if hashable:
                self.hashable_refs.append({"n": i})
        return i

    def add_call(self, stored=None, side=None, min_args=0):
        d = self.draw
        self.cur_slots = set()
        nargs = d(st.integers(min_args, 3))
        args = [self.arg(want_node=(i == 0)) for i in range(nargs)]
        nkw = d(st.integers(0, 2)) if d(st.booleans()) else 0
        names = d(st.permutations(KW_NAMES))[:nkw]
        kwargs = [[nm, self.arg()] for nm in names]
        if stored is None:
            stored = self.registry and d(st.sampled_from([True, True, False]))
        beh = self.beh()
        node = {"k": "call", "args": args, "kwargs": kwargs, "deps": self.deps(),
                "scope": self.scope(), "stored": bool(stored), "beh": beh, "side": side}
        if self.exotic and d(st.integers(0, 5)) == 0:
            node["fnkind"] = d(st.sampled_from(["obj", "obj_badrepr", "partial"]))
        self._maybe_late(node)
        if self.sread and self.registry and side is None and d(st.integers(0, 3)) == 0:
            self._add_side_read(node)
        return self.add(node, hashable=True)

    def _add_side_read(self, node):
        """Make the call read a registry entry's store directly, ordered after that entry by a plain
        dependency - half of the time routed through a literal barrier."""
        d = self.draw
        ents = [i for i, nd in enumerate(self.nodes)
                if (nd["k"] == "src" or nd.get("stored")) and {"n": i} in self.refs]
        if not ents:
            return
        k = d(st.sampled_from(ents))
        via = {"n": k}
        if d(st.booleans()):
            lit = {"k": "lit", "v": d(HASHABLE_CONSTS), "deps": [{"n": k}], "scope": self.scope(), "stored": False}
            self.nodes.append(lit)  # not referenceable by later nodes: it exists for this ordering only
            via = {"n": len(self.nodes) - 1}
        node["sread"] = k
        if via not in node["deps"]:
            node["deps"].append(via)

    def _maybe_late(self, node):
        if self.late and node.get("stored") and self.draw(st.integers(0, 3)) == 0:
            node["late"] = self.draw(st.integers(0, 3))

    def add_lit(self):
        d = self.draw
        hashable = d(st.booleans())
        v = d(HASHABLE_CONSTS if hashable else CONSTS)
        stored = self.registry and d(st.sampled_from([True] + [False] * 5))
        node = {"k": "lit", "v": v, "deps": self.deps(), "scope": self.scope(), "stored": stored}
        self._maybe_late(node)
        i = self.add(node, hashable=hashable)
        self.lit_refs.append({"n": i})
        return i

    def add_litchain(self):
        """Two or three literals chained by plain dependency edges (phase markers in a row)."""
        d = self.draw
        first = None
        for _ in range(d(st.integers(2, 3))):
            deps = self.deps() if first is None else [{"n": first}] + (self.deps(1) if d(st.integers(0, 3)) == 0 else [])
            node = {"k": "lit", "v": d(HASHABLE_CONSTS), "deps": [r for n, r in enumerate(deps) if r not in deps[:n]],
                    "scope": self.scope(), "stored": False}
            first = self.add(node, hashable=True)
            self.lit_refs.append({"n": first})
        return first

    def add_barrier(self):
        """The phase-marker idiom: calls -> literal [-> literal] -> calls, all plain dependency edges."""
        d = self.draw
        ups = []
        for _ in range(d(st.integers(1, 3))):
            r = self.ref() if self.refs and d(st.integers(0, 3)) else {"n": self.add_call()}
            if r not in ups:
                ups.append(r)
        last = self.add({"k": "lit", "v": d(HASHABLE_CONSTS), "deps": ups, "scope": self.scope(), "stored": False},
                        hashable=True)
        chain = [last]
        for _ in range(d(st.sampled_from([0, 0, 1, 1, 2]))):
            last = self.add({"k": "lit", "v": d(HASHABLE_CONSTS), "deps": [{"n": last}], "scope": self.scope(),
                             "stored": False}, hashable=True)
            chain.append(last)
        for i in chain:
            self.lit_refs.append({"n": i})
        # the chain is used for ordering only: hide it from later argument choices most of the time
        if d(st.integers(0, 3)):
            self.refs = [r for r in self.refs if r.get("n") not in chain]
            self.hashable_refs = [r for r in self.hashable_refs if r.get("n") not in chain]
        for _ in range(d(st.integers(1, 2))):
            c = self.add_call()
            if {"n": last} not in self.nodes[c]["deps"]:
                self.nodes[c]["deps"].append({"n": last})
        return last

    def add_accum(self):
        """The accumulator idiom: one mutable list / dict / set object grows between successive calls
        that all take it as an argument (parts.append(x); plan.call(total, parts))."""
        d = self.draw
        tag = d(st.sampled_from(["L", "L", "D", "S"]))
        slot = "%s%d" % (tag, d(st.integers(0, 1)))
        scope = self.scope()
        items = []
        last = None
        for _ in range(d(st.integers(2, 3))):
            self.cur_slots = {slot}  # (nested arguments must not use the accumulator's own slot)
            items = [x for x in items if not _uses_slots(x)]  # nested shared objects: fresh per call
            for _ in range(d(st.integers(0, 2))):
                if tag == "D":
                    key = self.arg(1, True)
                    if key not in [k for k, _ in items]:
                        items.append([key, self.arg(1, want_node=True)])
                else:
                    x = self.arg(1, tag == "S", want_node=True)
                    if tag != "S" or x not in items:
                        items.append(x)
            if d(st.integers(0, 5)) == 0 and items:
                items.pop(d(st.integers(0, len(items) - 1)))
            a = {tag: [list(p) for p in items] if tag == "D" else list(items)}
            self.cur_slots = _slots_in(a)  # slots used by nested arguments of this very call stay taken
            self._use_slot(a, slot)
            pos = d(st.integers(0, 1))
            args = [self.arg()] * pos + [a]
            node = {"k": "call", "args": args, "kwargs": [], "deps": [], "scope": list(scope) if d(st.integers(0, 4)) else self.scope(),
                    "stored": False, "beh": self.beh(), "side": None}
            last = self.add(node, hashable=True)
        return last

    def add_src(self):
        d = self.draw
        if self.alias:
            targets = [i for i, nd in enumerate(self.nodes)
                       if nd["k"] in ("call", "lit") and nd.get("stored") and {"n": i} in self.refs]
            if targets and d(st.integers(0, 3)) == 0:
                t = d(st.sampled_from(targets))
                node = {"k": "src", "deps": [{"n": t}], "alias": True, "scope": self.scope()}
                return self.add(node, hashable=True)
        if self.foreign and d(st.integers(0, 2)) == 0:
            # never transformed: executing it raises NotTransformedError (it is a plain failing call for run)
            kind = d(st.sampled_from([True, "added"])) if self.store_args else True
            # "added": the placeholder created by the OTHER registry's .source is given a store in THIS registry
            # through registry.add (e.g. a fixture store substituted for a production input)
            return self.add({"k": "src", "deps": [], "scope": self.scope(), "foreign": kind}, hashable=True)
        dependent = d(st.sampled_from([True, True, False, False, False]))
        xdeps = []
        if self.xdeps and self.refs and not dependent and d(st.integers(0, 1)) == 0:
            # only for sources without a writer: a writer is not ordered after the extra dependencies, so
            # it could legitimately leave its source older than them
            xdeps = self.deps(2)
        if dependent:
            # writer: a side-effecting call whose only successor is the source (docs lesson 4)
            i_src = len(self.nodes) + 1
            w = self.add_call(stored=False, side=i_src)
            self.nodes[w]["beh"] = {"t": "ok"}
            # the writer must not be referenced by anything else
            self.refs = [r for r in self.refs if r != {"n": w}]
            self.hashable_refs = [r for r in self.hashable_refs if r != {"n": w}]
            node = {"k": "src", "deps": [{"n": w}], "scope": self.scope()}
        else:
            node = {"k": "src", "deps": [], "scope": self.scope()}
        xdeps = [r for r in xdeps if r in self.refs]  # the writer just created is not referenceable
        if xdeps:
            node["xdeps"] = xdeps
        return self.add(node, hashable=True)

    def add_unpack(self):
        d = self.draw
        self.cur_slots = set()
        n = d(st.integers(0, 3))
        mode = d(st.sampled_from(["L", "T", "seq"]))
        if mode == "seq":
            # a call returning a list / tuple / generator of its n positional arguments
            args = [self.arg() for _ in range(n)]
            node = {"k": "call", "args": args, "kwargs": [], "deps": self.deps(1),
                    "scope": self.scope(), "stored": False,
                    "beh": {"t": "seq", "as": d(st.sampled_from(["list", "tuple", "gen", "lenliar+", "lenliar-"]))},
                    "side": None}
            c = len(self.nodes)
            self.nodes.append(node)  # not referenceable except through the unpack
            of = {"n": c}
        else:
            of = {mode: [self.arg(1) for _ in range(n)]}
        return self.add({"k": "unpack", "of": of, "n": n, "scope": self.scope()}, hashable=False)

    def add_gather(self):
        self.cur_slots = set()
        v = self.arg()
        node = {"k": "gather", "v": v, "scope": self.scope()}
        if "n" in v or "u" in v:
            # plan.gather(node) returns the node itself: an alias, not referenceable in the spec
            self.nodes.append(node)
            return len(self.nodes) - 1
        return self.add(node, hashable=False)

    def add_any(self):
        d = self.draw
        kinds = ["call"] * 6 + ["lit"] * self.lits + ["unpack", "gather"]
        if self.lits > 1:
            kinds += ["litchain", "barrier"]
        if self.shared:
            kinds += ["accum"]
        if self.registry:
            kinds += ["src", "src", "src", "src"]
        k = d(st.sampled_from(kinds))
        return getattr(self, "add_" + k)()

    def output(self):
        d = self.draw
        self.cur_slots = set()
        roll = d(st.sampled_from(range(10)))
        if roll == 0 or not self.refs:
            return None if roll == 0 or d(st.booleans()) else {"c": d(CONSTS)}
        if roll == 1:
            return {"c": d(CONSTS)}
        if roll < 6:
            return self.ref()
        if roll == 6:
            return {"L": [dict(r) for r in self.refs]}
        return self.arg()


def use_dependent_literals(draw, nodes):
    """Literals that have dependencies (the barrier / phase-marker idiom) are mostly used for ordering only; hand some
    of them to a later call as an ordinary positional argument too (the literal's value is then an input of the call,
    and the call inherits the literal's dependencies)."""
    for i, nd in enumerate(nodes):
        if nd["k"] == "lit" and nd.get("deps") and not nd.get("stored") and draw(st.booleans()):
            later = [j for j in range(i + 1, len(nodes)) if nodes[j]["k"] == "call" and nodes[j]["beh"]["t"] != "seq"]
            if later:
                j = draw(st.sampled_from(later))
                if {"n": i} not in nodes[j]["args"]:
                    nodes[j]["args"].append({"n": i})


@st.composite
def plan_specs(draw, max_nodes=8, registry=False, failures=0, opaque=True, flaky=False,
               min_nodes=1, lits=1, shared=False, exotic=False):
    g = Gen(draw, registry=registry, failures=failures, opaque=opaque, flaky=flaky, lits=lits, shared=shared,
            exotic=exotic)
    n = draw(st.integers(min_nodes, max_nodes))
    while len(g.nodes) < n:
        g.add_any()
    return {"nodes": g.nodes, "output": g.output()}


@st.composite
def run_configs(draw, nodes=8, max_errors=False, retry=False):
    cfg = {
        "workers": draw(st.sampled_from([1, 2, 2, 3, 3, 4, 4] + list(range(1, nodes + 4)))),
        "scheduler": draw(st.sampled_from(["default", "random", None])),
        "rseed": draw(st.integers(0, 2 ** 16)),
    }
    if max_errors:
        cfg["max_errors"] = draw(st.sampled_from([0, 0, None, 1, 2, 5]))
    if retry:
        cfg["retry"] = draw(st.sampled_from([None, 1, 2, 3, 4, "custom"]))
    return cfg


# ---------------------------------------------------------------------------
# inspection helpers over specs


def _slots_in(a, out=None):
    if out is None:
        out = set()
    if isinstance(a, list):
        for x in a:
            _slots_in(x, out)
    elif isinstance(a, dict):
        if "sh" in a:
            out.add(a["sh"])
        for k, v in a.items():
            if k in ("L", "T", "S", "D", "items"):
                _slots_in(v, out)
    return out


def _uses_slots(a):
    if isinstance(a, list):
        return any(_uses_slots(x) for x in a)
    if not isinstance(a, dict):
        return False
    if "sh" in a:
        return True
    return any(_uses_slots(v) for k, v in a.items() if k in ("L", "T", "S", "D", "items"))


def arg_refs(a, out=None, through_opaque=False):
    """All REFs inside an ARG that uberjob resolves (i.e. not hidden inside opaque objects)."""
    if out is None:
        out = []
    if "n" in a or "u" in a:
        out.append(a)
    elif "c" in a or "st" in a:
        pass
    elif "O" in a:
        if through_opaque:
            for x in a["items"]:
                arg_refs(x, out, through_opaque)
    elif "D" in a:
        for k, v in a["D"]:
            arg_refs(k, out, through_opaque)
            arg_refs(v, out, through_opaque)
    else:
        for x in a.get("L", a.get("T", a.get("S", []))):
            arg_refs(x, out, through_opaque)
    return out


def has_ref(a):
    return bool(arg_refs(a))


def ref_index(r):
    return r["n"] if "n" in r else r["u"]


def node_args(node):
    """ARGs whose values flow into the node as arguments (not plain dependencies)."""
    k = node["k"]
    if k == "call":
        return list(node["args"]) + [v for _, v in node["kwargs"]]
    if k == "unpack":
        return [node["of"]]
    if k == "gather":
        return [node["v"]]
    return []


def arg_preds(node):
    out = []
    for a in node_args(node):
        out.extend(ref_index(r) for r in arg_refs(a))
    return out


def dep_preds(node):
    return [ref_index(r) for r in node.get("deps", [])] + [ref_index(r) for r in node.get("xdeps", [])]


def src_kind(node):
    """'pure' (content set from outside), 'dep' (written by its writer call deps[0]) or 'alias'."""
    if node["k"] != "src":
        return None
    if node.get("alias"):
        return "alias"
    return "dep" if node["deps"] else "pure"


def preds(node):
    return set(arg_preds(node)) | set(dep_preds(node))


def ancestors(spec, roots):
    seen = set()
    stack = list(roots)
    while stack:
        i = stack.pop()
        if i in seen:
            continue
        seen.add(i)
        stack.extend(preds(spec["nodes"][i]))
    return seen


def strict_ancestors(spec, i):
    return ancestors(spec, preds(spec["nodes"][i]))


def arg_depth(a):
    if "c" in a or "n" in a or "u" in a or "st" in a:
        return 0
    if "D" in a:
        return 1 + max([0] + [max(arg_depth(k), arg_depth(v)) for k, v in a["D"]])
    items = a.get("L", a.get("T", a.get("S", a.get("items", []))))
    return 1 + max([0] + [arg_depth(x) for x in items])
