"""Deterministic cooperative scheduler.

Runs unmodified threaded code with exactly one runnable thread at a time.  Real OS threads are
used as coroutines (each has a private semaphore; exactly one holds the baton).  The model
`threading` namespace (Lock, RLock, Condition, Event, Semaphore, Thread, ...) is installed as the
`threading` global of the modules under test for the duration of one case.  Scheduling points:
every model-primitive operation, explicit `pause()` calls from harness code and - optionally -
every bytecode executed in a chosen set of source files (sys.settrace + f_trace_opcodes).

Verdicts: "deadlock" (no task can run while some are unfinished), "divergence" (step budget
exhausted).  Both abort the case by raising SchedAbort (a BaseException) in every task.
"""
import dis
import random
import sys
import threading as _rt
import time as _time

_current = None  # the active Scheduler (one per process at a time)


class SchedAbort(BaseException):
    pass


class HarnessWedged(Exception):
    pass


class Task:
    __slots__ = ("id", "name", "sem", "state", "blocked_on", "timed", "pending_exc", "real",
                 "wake", "exc", "target", "model_thread", "traced", "last_op", "sticky_until_block",
                 "steps")

    def __init__(self, tid, name, target):
        self.id = tid
        self.name = name
        self.sem = _rt.Semaphore(0)
        self.state = "new"
        self.blocked_on = None
        self.timed = False
        self.pending_exc = None
        self.real = None
        self.wake = None
        self.exc = None
        self.target = target
        self.model_thread = None
        self.traced = False
        self.last_op = {}
        self.steps = 0

    def __repr__(self):
        return f"<Task {self.id} {self.name} {self.state} on={self.blocked_on}>"


# ---------------------------------------------------------------------------
# policies


class RandomPolicy:
    """Continue the current task with probability 1-rate, else a uniformly random candidate."""

    def __init__(self, seed, rate=0.1):
        self.rng = random.Random(seed)
        self.rate = rate

    def pick(self, sched, cands, me):
        if me is not None and me in cands and self.rng.random() >= self.rate:
            return me
        return cands[self.rng.randrange(len(cands))]

    def fire_timeout(self, sched):
        return self.rng.random() < 0.02


class PCTPolicy:
    """Probabilistic concurrency testing: random priorities, d priority-change points."""

    def __init__(self, seed, depth=3, horizon=3000):
        self.rng = random.Random(seed)
        self.prio = {}
        self.change = sorted(self.rng.randrange(1, horizon) for _ in range(depth))
        self.low = 0

    def _p(self, t):
        if t.id not in self.prio:
            self.prio[t.id] = self.rng.random() + 1
        return self.prio[t.id]

    def pick(self, sched, cands, me):
        while self.change and sched.steps >= self.change[0]:
            self.change.pop(0)
            if me is not None:
                self.low -= 1
                self.prio[me.id] = self.low
        return max(cands, key=self._p)

    def fire_timeout(self, sched):
        return self.rng.random() < 0.02


class RunLengthPolicy:
    """[(steps, pick), ...]: run the current task `steps` points, then switch to the pick-th
    candidate; afterwards non-preemptive (switch only when the current task blocks)."""

    def __init__(self, segments):
        self.segments = list(segments)
        self.left = self.segments[0][0] if self.segments else None

    def pick(self, sched, cands, me):
        if me is None or me not in cands:
            if self.segments:
                _, p = self.segments.pop(0)
                self.left = self.segments[0][0] if self.segments else None
                return cands[p % len(cands)]
            return cands[0]
        if self.left is None:
            return me
        if self.left > 0:
            self.left -= 1
            return me
        _, p = self.segments.pop(0)
        self.left = self.segments[0][0] if self.segments else None
        return cands[p % len(cands)]

    def fire_timeout(self, sched):
        return False


class ReplayPolicy:
    """Re-applies a recorded decision trace [(step, task id), ...]."""

    def __init__(self, trace):
        self.trace = [tuple(x) for x in trace]
        self.pos = 0
        self.diverged = False

    def pick(self, sched, cands, me):
        if self.pos < len(self.trace) and self.trace[self.pos][0] == sched.steps:
            tid = self.trace[self.pos][1]
            self.pos += 1
            for c in cands:
                if c.id == tid:
                    return c
            self.diverged = True
        if me is not None and me in cands:
            return me
        self.diverged = self.diverged or True
        return cands[0]

    def fire_timeout(self, sched):
        return False


# ---------------------------------------------------------------------------


class Scheduler:
    def __init__(self, policy, trace_files=(), max_steps=2_000_000, trace_tasks=None,
                 watchdog=60.0):
        self.policy = policy
        self.trace_files = frozenset(trace_files)
        self.trace_tasks = trace_tasks  # None = every task; else a predicate on Task
        self.max_steps = max_steps
        self.watchdog = watchdog
        self.tasks = []
        self.current = None
        self.steps = 0
        self.switches = 0
        self.engine_switches = 0
        self.trace = []
        self.verdict = None
        self.verdict_info = None
        self.aborted = False
        self.finished = _rt.Event()
        self.by_real = {}
        self.uncaught = []
        self.sticky = None
        self.main = None
        self.on_step = None
        self.in_engine = False
        self.record_trace = True

    # -- identification ----------------------------------------------------
    def me(self):
        return self.by_real.get(_rt.get_ident())

    def is_task(self):
        return _rt.get_ident() in self.by_real

    # -- running -----------------------------------------------------------
    def run(self, fn):
        """Run fn as the main task; returns when every task has finished (or on abort)."""
        global _current
        if _current is not None:
            raise RuntimeError("a Scheduler is already active")
        _current = self
        try:
            main = self._new_task("main", fn)
            self.main = main
            self._start_real(main)
            main.state = "runnable"
            self.current = main
            main.sem.release()
            if not self.finished.wait(self.watchdog):
                self.aborted = True
                for t in self.tasks:
                    t.sem.release()
                raise HarnessWedged(f"watchdog: tasks={self.tasks!r}")
            for t in self.tasks:
                if t.real is not None:
                    t.real.join(10)
            return main
        finally:
            _current = None

    def _new_task(self, name, target):
        t = Task(len(self.tasks), name, target)
        self.tasks.append(t)
        return t

    def _start_real(self, task):
        def boot():
            self.by_real[_rt.get_ident()] = task
            task.sem.acquire()
            try:
                if self.aborted:
                    raise SchedAbort()
                if self.trace_files and (self.trace_tasks is None or self.trace_tasks(task)):
                    task.traced = True
                    sys.settrace(self._make_tracer(task))
                try:
                    task.target()
                finally:
                    sys.settrace(None)
            except SchedAbort:
                pass
            except BaseException as e:  # noqa: B902
                task.exc = e
                if task is not self.main:
                    self.uncaught.append((task.name, e))
            finally:
                self._task_done(task)

        th = _rt.Thread(target=boot, name=f"detsched-{task.id}", daemon=True)
        task.real = th
        th.start()

    def _task_done(self, task):
        task.state = "done"
        if self.sticky is task:
            self.sticky = None
        if self.aborted:
            if all(t.state == "done" for t in self.tasks if t.real is not None):
                self.finished.set()
            return
        mt = task.model_thread
        if mt is not None:
            for w in mt._joiners:
                self._make_runnable(w, "ok")
            mt._joiners = []
        if all(t.state == "done" for t in self.tasks):
            self.finished.set()
            return
        try:
            nxt = self._choose(None)
        except SchedAbort:
            if all(t.state == "done" for t in self.tasks if t.real is not None):
                self.finished.set()
            return
        self.current = nxt
        nxt.sem.release()

    # -- core --------------------------------------------------------------
    def _abort(self, verdict, info=None):
        if not self.aborted:
            self.aborted = True
            self.verdict = verdict
            self.verdict_info = info or self.dump()
            for t in self.tasks:
                if t.state != "done" and t is not self.me():
                    t.sem.release()
        raise SchedAbort()

    def dump(self):
        return [f"{t.id}:{t.name}:{t.state}:{t.blocked_on}" for t in self.tasks]

    def _candidates(self):
        return [t for t in self.tasks if t.state == "runnable"]

    def _choose(self, me):
        cands = self._candidates()
        timed = [t for t in self.tasks if t.state == "blocked" and t.timed]
        if not cands:
            if timed:
                t = timed[0] if len(timed) == 1 else self.policy.pick(self, timed, None)
                self._make_runnable(t, "timeout")
                cands = [t]
            else:
                live = [t for t in self.tasks if t.state == "blocked"]
                if live:
                    self._abort("deadlock")
                self._abort("deadlock", ["no candidate"])
        elif timed and self.policy.fire_timeout(self):
            t = timed[0]
            self._make_runnable(t, "timeout")
            cands.append(t)
        if self.sticky is not None and self.sticky in cands:
            nxt = self.sticky
        else:
            nxt = self.policy.pick(self, cands, me if (me is not None and me.state == "runnable") else None)
        if nxt is not me:
            self.switches += 1
            if self.in_engine:
                self.engine_switches += 1
            if self.record_trace:
                self.trace.append((self.steps, nxt.id))
        return nxt

    def _make_runnable(self, task, why):
        if task.state == "blocked":
            task.state = "runnable"
            task.wake = why
            task.blocked_on = None
            task.timed = False

    def _transfer(self, me, nxt):
        if nxt is me:
            return
        self.current = nxt
        nxt.sem.release()
        me.sem.acquire()
        if self.aborted:
            raise SchedAbort()

    def yield_point(self, can_raise=True, engine=False):
        me = self.me()
        if me is None:
            return
        if self.aborted:
            raise SchedAbort()
        self.steps += 1
        me.steps += 1
        if self.steps > self.max_steps:
            self._abort("divergence")
        self.in_engine = engine
        nxt = self._choose(me)
        self._transfer(me, nxt)
        if can_raise and me.pending_exc is not None:
            exc, me.pending_exc = me.pending_exc, None
            raise exc

    def block(self, reason, timed=False):
        """Block the calling task. Returns "ok" | "timeout" | "interrupt"."""
        me = self.me()
        if self.aborted:
            raise SchedAbort()
        if me.pending_exc is not None:
            return "interrupt"
        self.steps += 1
        me.state = "blocked"
        me.blocked_on = reason
        me.timed = timed
        me.wake = None
        if self.sticky is me:
            self.sticky = None
        self.in_engine = False
        nxt = self._choose(me)
        self._transfer(me, nxt)
        return me.wake or "ok"

    def interrupt(self, task, exc, run_now=True):
        """Deliver an asynchronous exception (e.g. KeyboardInterrupt) to `task`."""
        task.pending_exc = exc
        if task.state == "blocked":
            self._make_runnable(task, "interrupt")
        if run_now:
            self.sticky = task
            if self.me() is not task:
                self.yield_point(can_raise=False)

    # -- opcode tracing ----------------------------------------------------
    def _make_tracer(self, task):
        files = self.trace_files
        sched = self
        SAFE = _SAFE_OPS

        def local(frame, event, arg):
            if event == "opcode":
                code = frame.f_code
                op = code.co_code[frame.f_lasti]
                key = id(frame)
                prev = task.last_op.get(key)
                task.last_op[key] = op
                # Asynchronous exceptions are never raised out of the trace callback (CPython 3.12.1
                # crashed when we did, in generator / closure frames): a pending interrupt is
                # delivered at the task's next model-primitive operation instead (Thread.start,
                # lock acquire, Condition.wait, Thread.join), which is ordinary Python code.
                can_raise = False
                try:
                    sched.yield_point(can_raise=can_raise, engine=True)
                except SchedAbort:
                    # never raise the abort out of a trace callback (CPython 3.12.1 crashed when
                    # we did): the aborted task free-runs to its next model-primitive operation,
                    # which raises SchedAbort from ordinary code.
                    pass
            elif event == "return":
                task.last_op.pop(id(frame), None)
            return local

        def tracer(frame, event, arg):
            if event == "call" and frame.f_code.co_filename in files:
                frame.f_trace_opcodes = True
                frame.f_trace_lines = False
                return local
            return None

        task_tracer = tracer
        task_tracer.local = local
        return task_tracer

    def retrace(self):
        """Re-install opcode tracing after an exception escaped from the trace function."""
        me = self.me()
        if me is None or not me.traced or sys.gettrace() is not None:
            return
        tr = self._make_tracer(me)
        f = sys._getframe(1)
        while f is not None:
            if f.f_code.co_filename in self.trace_files:
                f.f_trace = tr.local
                f.f_trace_opcodes = True
                f.f_trace_lines = False
            f = f.f_back
        sys.settrace(tr)


_SAFE_OPS = frozenset(dis.opmap[n] for n in ("RESUME", "JUMP_BACKWARD") if n in dis.opmap)
_CALL_OPS = frozenset(v for k, v in dis.opmap.items() if k.startswith("CALL"))


def sched():
    s = _current
    if s is not None and s.is_task():
        return s
    return None


def pause(tag=None):
    """Explicit scheduling point for harness code (no-op outside a scheduler)."""
    s = sched()
    if s is not None:
        s.yield_point(can_raise=False)


# ---------------------------------------------------------------------------
# model primitives


class MLock:
    def __init__(self):
        self._owner = None
        self._waiters = []

    def acquire(self, blocking=True, timeout=-1):
        s = sched()
        s.retrace()
        s.yield_point()
        me = s.me()
        while self._owner is not None:
            if not blocking:
                return False
            self._waiters.append(me)
            why = s.block(("lock", id(self)), timed=(timeout is not None and timeout >= 0))
            if me in self._waiters:
                self._waiters.remove(me)
            if why == "timeout":
                return False
            if why == "interrupt":
                exc, me.pending_exc = me.pending_exc, None
                raise exc
        self._owner = me
        return True

    def release(self):
        s = sched()
        if self._owner is None:
            raise RuntimeError("release unlocked lock")
        self._owner = None
        ws, self._waiters = self._waiters, []
        for w in ws:
            s._make_runnable(w, "ok")
        if not s.aborted:
            s.yield_point(can_raise=False)

    def locked(self):
        return self._owner is not None

    def __enter__(self):
        self.acquire()
        return True

    def __exit__(self, *a):
        self.release()

    # Condition support
    def _release_save(self):
        self.release()

    def _acquire_restore(self, _):
        self._acquire_noint()

    def _acquire_noint(self):
        s = sched()
        me = s.me()
        saved, me.pending_exc = me.pending_exc, None
        try:
            while self._owner is not None:
                if me.pending_exc is not None:
                    # an interrupt delivered while this task was waiting here: re-acquiring the lock of a
                    # condition is not interruptible (as in CPython); keep it pending for the way out
                    if saved is None:
                        saved = me.pending_exc
                    me.pending_exc = None
                self._waiters.append(me)
                s.block(("lock", id(self)))
                if me in self._waiters:
                    self._waiters.remove(me)
            self._owner = me
        finally:
            if me.pending_exc is None:
                me.pending_exc = saved

    def _is_owned(self):
        return self._owner is sched().me()


class MRLock(MLock):
    def __init__(self):
        super().__init__()
        self._count = 0

    def acquire(self, blocking=True, timeout=-1):
        me = sched().me()
        if self._owner is me:
            self._count += 1
            return True
        ok = super().acquire(blocking, timeout)
        if ok:
            self._count = 1
        return ok

    def release(self):
        if self._owner is not sched().me():
            raise RuntimeError("cannot release un-acquired lock")
        self._count -= 1
        if self._count == 0:
            super().release()

    def _release_save(self):
        c = self._count
        self._count = 0
        MLock.release(self)
        return c

    def _acquire_restore(self, c):
        self._acquire_noint()
        self._count = c


class MCondition:
    def __init__(self, lock=None):
        self._lock = lock if lock is not None else MRLock()
        self._waiters = []
        self.acquire = self._lock.acquire
        self.release = self._lock.release

    def __enter__(self):
        return self._lock.__enter__()

    def __exit__(self, *a):
        return self._lock.__exit__(*a)

    def wait(self, timeout=None):
        s = sched()
        me = s.me()
        if not self._lock._is_owned():
            raise RuntimeError("cannot wait on un-acquired lock")
        self._waiters.append(me)
        saved = self._lock._release_save()
        why = "ok"
        try:
            if me in self._waiters:  # not yet notified while releasing
                why = s.block(("cond", id(self)), timed=timeout is not None)
        finally:
            if me in self._waiters:
                self._waiters.remove(me)
            self._lock._acquire_restore(saved)
        if why == "interrupt" or me.pending_exc is not None:
            exc, me.pending_exc = me.pending_exc, None
            if exc is not None:
                raise exc
        return why != "timeout"

    def wait_for(self, predicate, timeout=None):
        result = predicate()
        while not result:
            if not self.wait(timeout) and timeout is not None:
                return predicate()
            result = predicate()
        return result

    def notify(self, n=1):
        s = sched()
        if not self._lock._is_owned():
            raise RuntimeError("cannot notify on un-acquired lock")
        for _ in range(n):
            if not self._waiters:
                break
            w = self._waiters.pop(0)
            s._make_runnable(w, "ok")

    def notify_all(self):
        self.notify(len(self._waiters))


class MEvent:
    def __init__(self):
        self._flag = False
        self._waiters = []

    def is_set(self):
        return self._flag

    def set(self):
        s = sched()
        self._flag = True
        ws, self._waiters = self._waiters, []
        for w in ws:
            s._make_runnable(w, "ok")
        s.yield_point(can_raise=False)

    def clear(self):
        self._flag = False

    def wait(self, timeout=None):
        s = sched()
        me = s.me()
        s.yield_point()
        if self._flag:
            return True
        self._waiters.append(me)
        why = s.block(("event", id(self)), timed=timeout is not None)
        if me in self._waiters:
            self._waiters.remove(me)
        if why == "interrupt":
            exc, me.pending_exc = me.pending_exc, None
            raise exc
        return self._flag


class MSemaphore:
    def __init__(self, value=1):
        self._value = value
        self._waiters = []

    def acquire(self, blocking=True, timeout=None):
        s = sched()
        me = s.me()
        s.yield_point()
        while self._value == 0:
            if not blocking:
                return False
            self._waiters.append(me)
            why = s.block(("sem", id(self)), timed=timeout is not None)
            if me in self._waiters:
                self._waiters.remove(me)
            if why == "timeout":
                return False
            if why == "interrupt":
                exc, me.pending_exc = me.pending_exc, None
                raise exc
        self._value -= 1
        return True

    def release(self, n=1):
        s = sched()
        self._value += n
        ws, self._waiters = self._waiters, []
        for w in ws:
            s._make_runnable(w, "ok")
        s.yield_point(can_raise=False)

    __enter__ = acquire

    def __exit__(self, *a):
        self.release()


class MThread:
    _counter = 0

    def __init__(self, group=None, target=None, name=None, args=(), kwargs=None, daemon=None):
        MThread._counter += 1
        self._target = target
        self._args = args
        self._kwargs = kwargs or {}
        self.name = name or f"MThread-{MThread._counter}"
        self.daemon = bool(daemon)
        self._task = None
        self._joiners = []
        self._started = False

    def run(self):
        if self._target is not None:
            self._target(*self._args, **self._kwargs)

    def start(self):
        s = sched()
        if self._started:
            raise RuntimeError("threads can only be started once")
        s.retrace()
        s.yield_point()
        s.thread_starts = getattr(s, "thread_starts", 0) + 1
        if getattr(s, "fail_thread_start", None) == s.thread_starts:
            # resource exhaustion: the OS refuses another thread (what CPython reports as RuntimeError)
            raise RuntimeError("can't start new thread")
        self._started = True
        t = s._new_task(self.name, self.run)
        t.model_thread = self
        self._task = t
        s._start_real(t)
        t.state = "runnable"
        # an interrupt may surface while start() waits for the new thread to come up
        s.yield_point(can_raise=True)

    def join(self, timeout=None):
        s = sched()
        me = s.me()
        if not self._started:
            raise RuntimeError("cannot join thread before it is started")
        s.retrace()
        if s.on_step:
            s.on_step("join", self)
        s.yield_point()
        while self._task.state != "done":
            self._joiners.append(me)
            why = s.block(("join", self.name), timed=timeout is not None)
            if me in self._joiners:
                self._joiners.remove(me)
            if why == "timeout":
                return
            if why == "interrupt":
                exc, me.pending_exc = me.pending_exc, None
                raise exc

    def is_alive(self):
        return self._started and self._task.state != "done"

    @property
    def ident(self):
        return None if self._task is None else 100000 + self._task.id


class ModelThreading:
    """Stand-in for the `threading` module inside the modules under test."""

    def __init__(self):
        self.TIMEOUT_MAX = _rt.TIMEOUT_MAX

    @staticmethod
    def Lock():
        return MLock() if sched() else _rt.Lock()

    @staticmethod
    def RLock():
        return MRLock() if sched() else _rt.RLock()

    @staticmethod
    def Condition(lock=None):
        return MCondition(lock) if sched() else _rt.Condition(lock)

    @staticmethod
    def Event():
        return MEvent() if sched() else _rt.Event()

    @staticmethod
    def Semaphore(value=1):
        return MSemaphore(value) if sched() else _rt.Semaphore(value)

    BoundedSemaphore = Semaphore

    @staticmethod
    def Thread(*a, **kw):
        return MThread(*a, **kw) if sched() else _rt.Thread(*a, **kw)

    @staticmethod
    def get_ident():
        s = sched()
        return 100000 + s.me().id if s else _rt.get_ident()

    @staticmethod
    def current_thread():
        s = sched()
        if s:
            me = s.me()
            return me.model_thread or _rt.current_thread()
        return _rt.current_thread()

    @staticmethod
    def enumerate():
        s = sched()
        if s:
            return [t.model_thread for t in s.tasks if t.state != "done" and t.model_thread]
        return _rt.enumerate()

    def __getattr__(self, name):
        return getattr(_rt, name)


MODEL = ModelThreading()


class FakeTime:
    """Logical clock for modules that read time.time() under the scheduler."""

    def __init__(self, start=1000.0):
        self.now = start

    def time(self):
        return self.now

    def monotonic(self):
        return self.now

    def sleep(self, s):
        self.now += s
        pause()


class patched:
    """Context manager: install the model threading into the given modules."""

    def __init__(self, modules, extra=None):
        self.modules = modules
        self.saved = []
        self.extra = extra or []

    def __enter__(self):
        for m in self.modules:
            self.saved.append((m, "threading", m.threading))
            m.threading = MODEL
        for m, attr, val in self.extra:
            self.saved.append((m, attr, getattr(m, attr)))
            setattr(m, attr, val)
        return self

    def __exit__(self, *a):
        for m, attr, val in reversed(self.saved):
            setattr(m, attr, val)
        self.saved = []


_DIRECT_NAMES = ("Lock", "RLock", "Condition", "Event", "Semaphore", "BoundedSemaphore", "Thread")


def _uberjob_modules():
    import sys

    import uberjob  # noqa: F401

    return [m for name, m in sorted(sys.modules.items())
            if m is not None and (name == "uberjob" or name.startswith("uberjob."))
            and not name.startswith("uberjob.progress") and getattr(m, "__file__", None)]


def engine_modules():
    """Every module of uberjob's engine that refers to `threading` (wherever the implementation keeps its
    synchronisation: the checks must not depend on which file that is), plus the stdlib `queue`."""
    import queue

    mods = [m for m in _uberjob_modules() if getattr(m, "threading", None) is _rt]
    import uberjob._execution.run_function_on_graph as rfog

    if rfog not in mods and hasattr(rfog, "threading"):
        mods.append(rfog)
    return mods + [queue]


def engine_direct_imports():
    """(module, name, model) for names imported with `from threading import X` in engine modules."""
    out = []
    for m in _uberjob_modules():
        if not (m.__name__.startswith("uberjob._execution") or m.__name__.startswith("uberjob._transformations")
                or m.__name__.startswith("uberjob._util")):
            continue
        for name in _DIRECT_NAMES:
            if getattr(m, name, None) is getattr(_rt, name):
                out.append((m, name, getattr(MODEL, name)))
    return out


def engine_files():
    import os

    import uberjob._execution.run_function_on_graph as a
    import uberjob._transformations.caching as d

    files = set()
    ex_dir = os.path.dirname(a.__file__)
    for m in _uberjob_modules():
        f = m.__file__
        if os.path.dirname(f) == ex_dir or f == d.__file__ or getattr(m, "threading", None) is _rt:
            files.add(f)
    return sorted(files)


def run_under(fn, policy, trace=True, modules=None, extra=None, max_steps=2_000_000,
              trace_tasks=None, files=None, watchdog=60.0):
    """Run fn() as the main task of a fresh scheduler with the engine's threading swapped."""
    s = Scheduler(policy, trace_files=(files or engine_files()) if trace else (),
                  max_steps=max_steps, trace_tasks=trace_tasks, watchdog=watchdog)
    box = {}

    def main():
        box["result"] = fn()

    with patched(modules or engine_modules(), list(extra or []) + (engine_direct_imports() if modules is None else [])):
        s.run(main)
    return s, box.get("result")
