"""Small shared helpers: canonical JSON for cases, type-exact deep equality."""
import json
import pickle

LINE_TERMINATORS = "\n\r\x0b\x0c\x1c\x1d\x1e\x85  "


def canon(obj):
    """JSON-able, invertible canonical form of a case."""
    if obj is None or isinstance(obj, (bool, str)):
        return obj
    if type(obj) is int:
        if abs(obj) > 2 ** 62:
            return {"$int": str(obj) if abs(obj) < 10 ** 4000 else hex(obj)}
        return obj
    if type(obj) is float:
        if obj != obj or obj in (float("inf"), float("-inf")):
            return {"$float": repr(obj)}
        return obj
    if type(obj) is list:
        return [canon(x) for x in obj]
    if type(obj) is tuple:
        return {"$tuple": [canon(x) for x in obj]}
    if type(obj) is dict:
        if all(type(k) is str and not k.startswith("$") for k in obj):
            return {k: canon(v) for k, v in obj.items()}
        return {"$dict": [[canon(k), canon(v)] for k, v in obj.items()]}
    if type(obj) in (set, frozenset):
        items = sorted((canon(x) for x in obj), key=lambda c: json.dumps(c, sort_keys=True))
        return {"$set" if type(obj) is set else "$frozenset": items}
    if type(obj) is bytes:
        return {"$bytes": obj.hex()}
    try:
        return {"$pickle": pickle.dumps(obj, protocol=4).hex(), "$repr": repr(obj)[:200]}
    except Exception:
        return {"$repr": repr(obj)[:200]}


def uncanon(c):
    if isinstance(c, list):
        return [uncanon(x) for x in c]
    if isinstance(c, dict):
        if "$int" in c:
            return int(c["$int"], 0)
        if "$float" in c:
            return float(c["$float"])
        if "$tuple" in c:
            return tuple(uncanon(x) for x in c["$tuple"])
        if "$dict" in c:
            return {uncanon(k): uncanon(v) for k, v in c["$dict"]}
        if "$set" in c:
            return {uncanon(x) for x in c["$set"]}
        if "$frozenset" in c:
            return frozenset(uncanon(x) for x in c["$frozenset"])
        if "$bytes" in c:
            return bytes.fromhex(c["$bytes"])
        if "$pickle" in c:
            return pickle.loads(bytes.fromhex(c["$pickle"]))
        if "$repr" in c:
            return c
        return {k: uncanon(v) for k, v in c.items()}
    return c


def deep_eq(a, b, path="$"):
    """None if a and b are equal with identical types at every level, else a reason."""
    if type(a) is not type(b):
        return f"type differs at {path}: {type(a).__name__} vs {type(b).__name__}"
    if type(a) in (list, tuple):
        if len(a) != len(b):
            return f"length differs at {path}: {len(a)} vs {len(b)}"
        for i, (x, y) in enumerate(zip(a, b)):
            r = deep_eq(x, y, f"{path}[{i}]")
            if r:
                return r
        return None
    if type(a) is dict:
        if list(a.keys()) != list(b.keys()):
            if set(a.keys()) != set(b.keys()):
                return f"keys differ at {path}"
        for k in a:
            if k not in b:
                return f"key {k!r} missing at {path}"
            kb = next(x for x in b if x == k)
            if type(kb) is not type(k):
                return f"key type differs at {path}: {k!r} vs {kb!r}"
            r = deep_eq(a[k], b[k], f"{path}[{k!r}]")
            if r:
                return r
        return None
    if type(a) in (set, frozenset):
        if a != b:
            return f"set differs at {path}"
        for x in a:
            y = next(z for z in b if z == x)
            r = deep_eq(x, y, path + "{}")
            if r:
                return r
        return None
    try:
        same = a == b
    except Exception as e:  # pragma: no cover
        return f"== raised {e!r} at {path}"
    if not same:
        return f"value differs at {path}: {a!r:.80} vs {b!r:.80}"
    return None


def depth_of(v):
    if isinstance(v, dict):
        return 1 + max([0] + [max(depth_of(k), depth_of(x)) for k, x in v.items()])
    if isinstance(v, (list, tuple, set, frozenset)):
        return 1 + max([0] + [depth_of(x) for x in v])
    return 0
