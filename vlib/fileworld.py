"""A world whose stores are uberjob PickleFileStore files in a directory (C08 file variant)."""
import datetime as dt
import os
import pickle

from uberjob._util import Missing
from uberjob.stores import PickleFileStore

from vlib import fsfaults, world
from vlib.specs import R

EPOCH_TS = world.EPOCH.replace(tzinfo=dt.timezone.utc).timestamp()


class Corrupt:
    def __init__(self, data, exc):
        self.data = data
        self.exc = exc

    def __repr__(self):
        return f"<unreadable file: {len(self.data)} bytes, {type(self.exc).__name__}: {self.exc}>"


class StampingInjector(fsfaults.Injector):
    """Also stamps strictly increasing logical modified times on every completed rename, so file
    times are pairwise distinct without sleeping."""

    def replace(self, src, dst, **kw):
        r = super().replace(src, dst, **kw)
        if self.mine(dst):
            d = os.path.dirname(os.fspath(dst))
            ticks = [0]
            for n in os.listdir(d):
                if not n.endswith(".STAGING") and os.path.join(d, n) != os.fspath(dst):
                    ticks.append(int(round(os.path.getmtime(os.path.join(d, n)) - EPOCH_TS)))
            t = EPOCH_TS + max(ticks) + 1
            os.utime(dst, (t, t))
        return r


class FilePickleStore(PickleFileStore):
    __slots__ = ("world", "idx")

    def __init__(self, w, idx, path):
        super().__init__(path)
        self.world = w
        self.idx = idx

    def read(self):
        w = self.world
        w.op_begin("rd", self.idx)
        try:
            v = PickleFileStore.read(self)
        except BaseException as e:
            w.op_fail("rd", self.idx, e)
            raise
        w.op_end("rd", self.idx)
        return R(v)

    def write(self, value):
        w = self.world
        w.op_begin("wr", self.idx)
        try:
            PickleFileStore.write(self, value)
        except BaseException as e:
            w.op_fail("wr", self.idx, e)
            raise
        w.op_end("wr", self.idx)

    def get_modified_time(self):
        w = self.world
        w.op_begin("mt", self.idx)
        w.op_end("mt", self.idx)
        return PickleFileStore.get_modified_time(self)

    # harness-side accessors (not used by uberjob)
    def _set(self, value):
        PickleFileStore.write(self, value)

    @property
    def value(self):
        try:
            with open(self.path, "rb") as f:
                return pickle.load(f)
        except FileNotFoundError:
            return Missing
        except Exception as e:  # truncated / torn file
            with open(self.path, "rb") as f:
                return Corrupt(f.read(), e)

    @property
    def time(self):
        try:
            return int(round(os.path.getmtime(self.path) - EPOCH_TS))
        except OSError:
            return None

    def harness_delete(self):
        try:
            os.remove(self.path)
        except FileNotFoundError:
            pass

    def __repr__(self):
        return f"FilePickleStore({self.idx})"


class FileWorld(world.World):
    def __init__(self, spec, directory, **kw):
        self.directory = directory
        super().__init__(spec, registry=True, **kw)

    def new_store(self, i):
        return FilePickleStore(self, i, os.path.join(self.directory, f"n{i}.pkl"))

    @property
    def clock(self):
        ticks = [0]
        for n in os.listdir(self.directory):
            if n.endswith(".pkl"):
                ticks.append(int(round(os.path.getmtime(os.path.join(self.directory, n)) - EPOCH_TS)))
        return max(ticks)

    @clock.setter
    def clock(self, v):
        pass
