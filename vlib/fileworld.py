"""A world whose stores are uberjob PickleFileStore files in a directory (C08 file variant)."""
import datetime as dt
import json
import os
import pickle

from uberjob._util import Missing
from uberjob.stores import BinaryFileStore, JsonFileStore, PickleFileStore, TextFileStore

from vlib import fsfaults, world
from vlib.specs import R

EPOCH_TS = world.EPOCH.replace(tzinfo=dt.timezone.utc).timestamp()


class Corrupt:
    def __init__(self, data, exc):
        self.data = data
        self.exc = exc

    def __repr__(self):
        return f"<unreadable file: {len(self.data)} bytes, {type(self.exc).__name__}: {self.exc}>"


class StampingInjector(fsfaults.Injector):
    """Also gives every published file a strictly increasing logical modified time (stamped on the
    staging file just before the rename, under a lock), so file times are pairwise distinct and
    ordered like the renames without sleeping."""

    def __init__(self, root, plan=None):
        super().__init__(root, plan)
        import threading

        self._stamp_lock = threading.Lock()
        ticks = [0]
        for n in os.listdir(root):
            if not n.endswith(".STAGING"):
                ticks.append(int(round(os.path.getmtime(os.path.join(root, n)) - EPOCH_TS)))
        self._tick = max(ticks)

    def replace(self, src, dst, **kw):
        if not self.mine(dst):
            return fsfaults._real_replace(src, dst, **kw)
        self.op("replace", dst)
        with self._stamp_lock:
            self._tick += 1
            t = EPOCH_TS + self._tick
            os.utime(src, (t, t))
            return fsfaults._real_replace(src, dst, **kw)


def _make_file_store(base, ext, encode, decode, load):
    """A logging subclass of one of uberjob's bundled file stores.  encode/decode map the world's values to what the
    bundled store accepts (PickleFileStore: the value itself; the text-like stores: its repr)."""

    class Store(base):
        __slots__ = ("world", "idx")
        EXT = ext

        def __init__(self, w, idx, path):
            base.__init__(self, path)
            self.world = w
            self.idx = idx

        def read(self):
            w = self.world
            w.op_begin("rd", self.idx)
            try:
                v = base.read(self)
            except BaseException as e:
                w.op_fail("rd", self.idx, e)
                raise
            w.op_end("rd", self.idx)
            return R(decode(v))

        def write(self, value):
            w = self.world
            w.op_begin("wr", self.idx)
            try:
                base.write(self, encode(value))
            except BaseException as e:
                w.op_fail("wr", self.idx, e)
                raise
            w.op_end("wr", self.idx)

        def get_modified_time(self):
            w = self.world
            w.op_begin("mt", self.idx)
            w.op_end("mt", self.idx)
            return base.get_modified_time(self)

        # harness-side accessors (not used by uberjob)
        def _set(self, value):
            base.write(self, encode(value))

        @property
        def value(self):
            try:
                with open(self.path, "rb") as f:
                    return load(f)
            except FileNotFoundError:
                return Missing
            except Exception as e:  # truncated / torn file
                with open(self.path, "rb") as f:
                    return Corrupt(f.read(), e)

        @property
        def time(self):
            try:
                return int(round(os.path.getmtime(self.path) - EPOCH_TS))
            except OSError:
                return None

        def harness_delete(self):
            try:
                os.remove(self.path)
            except FileNotFoundError:
                pass

        def __repr__(self):
            return f"{type(self).__name__}({self.idx})"

    return Store


def _text_of(value):
    return repr(value)


FilePickleStore = _make_file_store(PickleFileStore, ".pkl", lambda v: v, lambda v: v, pickle.load)
FilePickleStore.__name__ = FilePickleStore.__qualname__ = "FilePickleStore"
FileTextStore = _make_file_store(TextFileStore, ".txt", _text_of, lambda v: v, lambda f: f.read().decode("utf-8"))
FileTextStore.__name__ = FileTextStore.__qualname__ = "FileTextStore"
FileBinaryStore = _make_file_store(BinaryFileStore, ".bin", lambda v: _text_of(v).encode("utf-8"),
                                   lambda v: v.decode("utf-8"), lambda f: f.read().decode("utf-8"))
FileBinaryStore.__name__ = FileBinaryStore.__qualname__ = "FileBinaryStore"
FileJsonStore = _make_file_store(JsonFileStore, ".json", _text_of, lambda v: v, lambda f: json.load(f))
FileJsonStore.__name__ = FileJsonStore.__qualname__ = "FileJsonStore"
KINDS = {"pickle": FilePickleStore, "text": FileTextStore, "binary": FileBinaryStore, "json": FileJsonStore}
EXTS = tuple(c.EXT for c in KINDS.values())


class FileWorld(world.World):
    def __init__(self, spec, directory, kinds=None, **kw):
        self.directory = directory
        self.kinds = kinds or {}  # entry index -> "pickle" | "text" | "binary" | "json" (default pickle)
        super().__init__(spec, registry=True, **kw)

    def new_store(self, i):
        cls = KINDS[self.kinds.get(i, self.kinds.get(str(i), "pickle"))]
        return cls(self, i, os.path.join(self.directory, f"n{i}{cls.EXT}"))

    def tick_dt(self, t):
        # file times are EPOCH + tick seconds (StampingInjector); TZ=UTC in every check process
        return None if t is None else world.EPOCH + dt.timedelta(seconds=t)

    @property
    def clock(self):
        ticks = [0]
        for n in os.listdir(self.directory):
            if n.endswith(EXTS):
                ticks.append(int(round(os.path.getmtime(os.path.join(self.directory, n)) - EPOCH_TS)))
        return max(ticks)

    @clock.setter
    def clock(self, v):
        pass
