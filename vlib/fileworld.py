"""A world whose stores are uberjob PickleFileStore files in a directory (C08 file variant)."""
import datetime as dt
import os
import pickle

from uberjob._util import Missing
from uberjob.stores import PickleFileStore

from vlib import fsfaults, world
from vlib.specs import R

EPOCH_TS = world.EPOCH.replace(tzinfo=dt.timezone.utc).timestamp()


class Corrupt:
    def __init__(self, data, exc):
        self.data = data
        self.exc = exc

    def __repr__(self):
        return f"<unreadable file: {len(self.data)} bytes, {type(self.exc).__name__}: {self.exc}>"


class StampingInjector(fsfaults.Injector):
    """Also gives every published file a strictly increasing logical modified time (stamped on the
    staging file just before the rename, under a lock), so file times are pairwise distinct and
    ordered like the renames without sleeping."""

    def __init__(self, root, plan=None):
        super().__init__(root, plan)
        import threading

        self._stamp_lock = threading.Lock()
        ticks = [0]
        for n in os.listdir(root):
            if not n.endswith(".STAGING"):
                ticks.append(int(round(os.path.getmtime(os.path.join(root, n)) - EPOCH_TS)))
        self._tick = max(ticks)

    def replace(self, src, dst, **kw):
        if not self.mine(dst):
            return fsfaults._real_replace(src, dst, **kw)
        self.op("replace", dst)
        with self._stamp_lock:
            self._tick += 1
            t = EPOCH_TS + self._tick
            os.utime(src, (t, t))
            return fsfaults._real_replace(src, dst, **kw)


class FilePickleStore(PickleFileStore):
    __slots__ = ("world", "idx")

    def __init__(self, w, idx, path):
        super().__init__(path)
        self.world = w
        self.idx = idx

    def read(self):
        w = self.world
        w.op_begin("rd", self.idx)
        try:
            v = PickleFileStore.read(self)
        except BaseException as e:
            w.op_fail("rd", self.idx, e)
            raise
        w.op_end("rd", self.idx)
        return R(v)

    def write(self, value):
        w = self.world
        w.op_begin("wr", self.idx)
        try:
            PickleFileStore.write(self, value)
        except BaseException as e:
            w.op_fail("wr", self.idx, e)
            raise
        w.op_end("wr", self.idx)

    def get_modified_time(self):
        w = self.world
        w.op_begin("mt", self.idx)
        w.op_end("mt", self.idx)
        return PickleFileStore.get_modified_time(self)

    # harness-side accessors (not used by uberjob)
    def _set(self, value):
        PickleFileStore.write(self, value)

    @property
    def value(self):
        try:
            with open(self.path, "rb") as f:
                return pickle.load(f)
        except FileNotFoundError:
            return Missing
        except Exception as e:  # truncated / torn file
            with open(self.path, "rb") as f:
                return Corrupt(f.read(), e)

    @property
    def time(self):
        try:
            return int(round(os.path.getmtime(self.path) - EPOCH_TS))
        except OSError:
            return None

    def harness_delete(self):
        try:
            os.remove(self.path)
        except FileNotFoundError:
            pass

    def __repr__(self):
        return f"FilePickleStore({self.idx})"


class FileWorld(world.World):
    def __init__(self, spec, directory, **kw):
        self.directory = directory
        super().__init__(spec, registry=True, **kw)

    def new_store(self, i):
        return FilePickleStore(self, i, os.path.join(self.directory, f"n{i}.pkl"))

    @property
    def clock(self):
        ticks = [0]
        for n in os.listdir(self.directory):
            if n.endswith(".pkl"):
                ticks.append(int(round(os.path.getmtime(os.path.join(self.directory, n)) - EPOCH_TS)))
        return max(ticks)

    @clock.setter
    def clock(self, v):
        pass
