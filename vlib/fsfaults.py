"""File-operation fault injection for paths under one directory.

While active, builtins.open / os.replace / os.remove are proxied; every operation on a path under
`root` (open, each write() call, flush, close, replace, remove) gets an index in one stream.
A fault plan {"k": index, "kind": "oserror"|"perm"|"kbi"|"exit"} fires *before* the k-th operation
takes effect (a rename that takes effect and then reports failure is not a realistic fault).
"short": a write() on a RAW file accepts only half of the data and returns the short count (no effect on buffered
files).  "call" runs plan["fn"]() (not counted, not faulted) before operation k: another writer's complete write in the
same directory.  "oserror" is a one-shot EIO; "perm" is a persistent condition: PermissionError(EACCES) at operation k and
at every later operation of the same kind (for a write also at flush/close), as a read-only directory or a
full disk would produce.
"""
import builtins
import os

_real_open = builtins.open
_real_replace = os.replace
_real_remove = os.remove


class FileProxy:
    def __init__(self, inj, f, path):
        object.__setattr__(self, "_inj", inj)
        object.__setattr__(self, "_f", f)
        object.__setattr__(self, "_path", path)

    def write(self, data):
        short = self._inj.op("write", self._path)
        if short == "short":
            import io

            if isinstance(self._f, io.RawIOBase) and len(data) > 1:
                # a raw (unbuffered) file may accept only part of the data and report how much; the buffered
                # layers loop until everything is written, so only raw files can show this to their caller
                self._inj.short_applied = True
                return self._f.write(bytes(data)[: len(data) // 2])
        return self._f.write(data)

    def flush(self):
        self._inj.op("flush", self._path)
        return self._f.flush()

    def close(self):
        if not self._f.closed:
            try:
                self._inj.op("close", self._path)
            except BaseException:
                # the descriptor is released even when close reports an error
                try:
                    self._f.close()
                except Exception:
                    pass
                raise
        return self._f.close()

    def __enter__(self):
        self._f.__enter__()
        return self

    def __exit__(self, *a):
        self.close()
        return False

    def __iter__(self):
        return iter(self._f)

    def __getattr__(self, name):
        return getattr(self._f, name)


class Injector:
    def __init__(self, root, plan=None):
        self.root = os.path.realpath(root) + os.sep
        self.plan = plan
        self.count = 0
        self.log = []
        self.fired = False
        self.sticky_kinds = ()
        self.passive = False
        self.short_applied = False

    def mine(self, path):
        try:
            p = os.path.realpath(os.fspath(path))
        except TypeError:
            return False
        return (p + os.sep).startswith(self.root) or p.startswith(self.root)

    def op(self, kind, path):
        if self.passive:
            return
        k = self.count
        self.count += 1
        self.log.append((k, kind, os.path.basename(os.fspath(path))))
        p = self.plan
        if self.fired and kind in self.sticky_kinds:
            raise PermissionError(13, f"injected persistent permission error at file op {k} ({kind})")
        if p is not None and p["k"] == k and not self.fired:
            self.fired = True
            if p["kind"] == "oserror":
                raise OSError(5, f"injected I/O error at file op {k} ({kind})")
            if p["kind"] == "perm":
                self.sticky_kinds = ("write", "flush", "close") if kind in ("write", "flush", "close") else (kind,)
                raise PermissionError(13, f"injected persistent permission error at file op {k} ({kind})")
            if p["kind"] == "kbi":
                raise KeyboardInterrupt(f"injected interrupt at file op {k} ({kind})")
            if p["kind"] == "exit":
                os._exit(0)
            if p["kind"] == "short":
                return "short"
            if p["kind"] == "call":
                # something else happens in the directory between two operations of the write under test
                self.passive = True
                try:
                    p["fn"]()
                finally:
                    self.passive = False

    # proxies
    def open(self, file, mode="r", *a, **kw):
        if isinstance(file, int) or not self.mine(file):
            return _real_open(file, mode, *a, **kw)
        writing = any(c in mode for c in "wax+")
        if writing:
            self.op("open", file)
            return FileProxy(self, _real_open(file, mode, *a, **kw), file)
        return _real_open(file, mode, *a, **kw)

    def replace(self, src, dst, **kw):
        if self.mine(dst):
            self.op("replace", dst)
        return _real_replace(src, dst, **kw)

    def remove(self, path, **kw):
        return _real_remove(path, **kw)

    def __enter__(self):
        builtins.open = self.open
        os.replace = self.replace
        os.remove = self.remove
        return self

    def __exit__(self, *a):
        builtins.open = _real_open
        os.replace = _real_replace
        os.remove = _real_remove
        return False
