"""Reference model: from-scratch interpreter over the spec, declarative out-of-date oracle and
needed-set oracle.  Shares no code with uberjob (it reads the spec, never uberjob's graph)."""
import collections

from vlib import specs
from vlib.specs import R, SideRead, Term, W


class RefFailure(Exception):
    def __init__(self, idx):
        super().__init__(f"node {idx} raises")
        self.idx = idx


class Ref:
    """From-scratch evaluation of a spec on the current pure-source contents of a world."""

    def __init__(self, world, registry=True, normalising=True):
        self.world = world
        self.spec = world.spec
        self.registry = registry and world.registry is not None
        self.normalising = normalising
        self._raw = {}

    def is_entry(self, i):
        nd = self.spec["nodes"][i]
        return self.registry and ((nd["k"] == "src" and not nd.get("foreign")) or bool(nd.get("stored")))

    def raw(self, i):
        """The value node i computes (what a non-source store must hold afterwards)."""
        if i in self._raw:
            return self._raw[i]
        nd = self.spec["nodes"][i]
        k = nd["k"]
        if k == "call":
            argrefs, kwrefs = self.world.argrefs[i]
            args = [self.eval(r) for r in argrefs]
            kwargs = [(n, self.eval(r)) for n, r in kwrefs]
            for d in nd["deps"]:
                self.force(d)
            beh = nd["beh"]
            if beh["t"] == "raise" and beh["first"] < 0:
                raise RefFailure(i)
            if beh["t"] == "ret":
                v = beh["v"]
            elif beh["t"] == "seq":
                v = tuple(args)
            else:
                if nd.get("sread") is not None:
                    args = args + [SideRead(nd["sread"], self.raw(nd["sread"]))]
                v = Term(i, args, kwargs)
        elif k == "lit":
            for d in nd["deps"]:
                self.force(d)
            v = self.world.nodes[i].value
        elif k == "src":
            if nd.get("foreign"):
                raise RefFailure(i)
            for d in nd.get("xdeps", []):
                self.force(d)
            if nd.get("alias"):
                v = self.raw(nd["deps"][0]["n"])
            elif nd["deps"]:
                w = nd["deps"][0]["n"]
                v = W(self.raw(w))
            else:
                v = self.world.stores[i].value
        elif k == "unpack":
            (r,), _ = self.world.argrefs[i]
            v = tuple(self.eval(r))
            if len(v) != nd["n"]:
                raise RefFailure(i)
        elif k == "gather":
            (r,), _ = self.world.argrefs[i]
            v = self.eval(r)
        self._raw[i] = v
        return v

    def force(self, ref):
        self.raw(specs.ref_index(ref))

    def value(self, i):
        """What an argument consumer of node i receives."""
        v = self.raw(i)
        if self.is_entry(i) and self.normalising:
            return R(v)
        return v

    def eval(self, r):
        t = r[0]
        if t == "obj":
            return r[1]
        if t == "n":
            return self.value(r[1])
        if t == "u":
            return self.raw(r[1])[r[2]]
        if t == "L":
            return [self.eval(x) for x in r[1]]
        if t == "T":
            return tuple(self.eval(x) for x in r[1])
        if t == "S":
            return {self.eval(x) for x in r[1]}
        if t == "D":
            return {self.eval(k): self.eval(v) for k, v in r[1]}
        raise ValueError(t)


# ---------------------------------------------------------------------------


def entries(spec):
    return {i for i, nd in enumerate(spec["nodes"])
            if (nd["k"] == "src" and not nd.get("foreign")) or nd.get("stored")}


def out_of_date(spec, times, fresh=None):
    """Declarative out-of-date set (by ancestor closure). times: {entry: tick or None}."""
    ent = entries(spec)
    ood = set()
    for i in sorted(ent):
        anc = [a for a in specs.strict_ancestors(spec, i) if a in ent]
        t = times.get(i)
        if t is None:
            ood.add(i)
            continue
        if any(a in ood for a in anc):
            ood.add(i)
            continue
        anc_t = max((times[a] for a in anc), default=None)
        is_source = spec["nodes"][i]["k"] == "src"
        newest = max(x for x in (t, anc_t, fresh) if x is not None)
        if (anc_t is not None or not is_source) and newest > t:
            ood.add(i)
    return ood


def count_gathers(a):
    """Number of implicit gather calls uberjob creates for an ARG."""
    if "c" in a or "n" in a or "u" in a or "O" in a or "st" in a:
        return 0
    if not specs.has_ref(a):
        return 0
    if "D" in a:
        # dict items are (key, value) tuples: a tuple is gathered only if it contains a node
        n = 1
        for k, v in a["D"]:
            if specs.has_ref(k) or specs.has_ref(v):
                n += 1 + count_gathers(k) + count_gathers(v)
        return n
    items = a.get("L", a.get("T", a.get("S")))
    if "S" in a:
        uniq = []
        for x in items:
            if x not in uniq:
                uniq.append(x)
        items = uniq
    return 1 + sum(count_gathers(x) for x in items)


def needed(spec, ood=frozenset(), output=None, registry=True):
    """Which calls execute, which stores are read / written / asked for their time."""
    nodes = spec["nodes"]
    ent = entries(spec) if registry else set()
    n = len(nodes)
    active = [False] * n
    elem_active = collections.defaultdict(set)
    reads = set()
    gathers = 0

    out_refs = specs.arg_refs(output) if output is not None else []

    def pull(ref, via_arg):
        i = specs.ref_index(ref)
        if i in ent:
            if via_arg:
                reads.add(i)
            return
        active[i] = True
        if "u" in ref:
            elem_active[i].add(ref["j"])

    for r in out_refs:
        pull(r, True)
    if output is not None:
        gathers += count_gathers(output)

    for i in range(n - 1, -1, -1):
        nd = nodes[i]
        if i in ent:
            act = i in ood
        else:
            act = active[i]
        active[i] = act
        if not act:
            continue
        if nd["k"] == "src":
            for d in list(nd["deps"]) + list(nd.get("xdeps", [])):
                pull(d, False)
            continue
        for a in specs.node_args(nd):
            for r in specs.arg_refs(a):
                pull(r, True)
            gathers += count_gathers(a)
        if nd["k"] == "gather" and specs.has_ref(nd["v"]) and not ("n" in nd["v"] or "u" in nd["v"]):
            pass  # the node itself is the outermost gather call (already counted above)
        for d in nd.get("deps", []):
            pull(d, False)

    execs = {i for i in range(n) if active[i] and nodes[i]["k"] == "call"}
    writes = {i for i in ent if i in ood and nodes[i]["k"] != "src"}
    anc_ood = set()
    for i in ent:
        if any(a in ood for a in specs.strict_ancestors(spec, i) if a in ent):
            anc_ood.add(i)
    mt = ent - anc_ood
    unpack_calls = sum(1 + len(elem_active[i]) for i in range(n)
                       if active[i] and nodes[i]["k"] == "unpack")
    return {"exec": execs, "reads": reads, "writes": writes, "mt": mt, "gathers": gathers,
            "active": {i for i in range(n) if active[i]}, "unpack_calls": unpack_calls}


def observed(world):
    """Multisets of what actually happened, from the event log."""
    calls = collections.Counter()
    reads = collections.Counter()
    writes = collections.Counter()
    mts = collections.Counter()
    for _, kind, idx, extra, _ in world.events:
        if kind == "start":
            calls[idx] += 1
        elif kind == "rd_start":
            reads[idx] += 1
        elif kind == "wr_start":
            writes[idx] += 1
        elif kind == "mt_start":
            mts[idx] += 1
    return {"exec": calls, "reads": reads, "writes": writes, "mt": mts}
